#!/usr/bin/env python3
"""Generates /verif/seeded/README.md from the meta.json files."""
import json, glob, os, re
rows = []
for d in sorted(glob.glob('/verif/seeded/*/')):
    name = os.path.basename(d.rstrip('/'))
    m = json.load(open(d + 'meta.json'))
    notes = open(d + 'notes.md').read() if os.path.exists(d + 'notes.md') else ''
    first = ''
    for l in notes.splitlines():
        l = l.strip()
        if l and not l.startswith('#'):
            first = l
            break
    rows.append((name, m.get('property'), m.get('detected'), m.get('check_exit'), m.get('comment', ''), first[:220]))
with open('/verif/seeded/README.md', 'w') as f:
    f.write("# Seeded changes\n\nEach directory holds `patch.diff` (apply with `git -C /repo apply`), the sub-agent's demonstration test, its notes and `meta.json` "
            "(what was re-verified here and the outcome of `./check <property> --tier quick` with the change applied; produced by `tools/seed_verify.sh` and `tools/seed_run.sh`).\n\n"
            "| change | property | quick check | remark | what it does |\n|---|---|---|---|---|\n")
    for r in rows:
        res = {True: 'VIOLATION (caught)', False: 'not caught (exit %s)' % r[3], None: 'not run'}[r[2]]
        f.write("| %s | %s | %s | %s | %s |\n" % (r[0], r[1], res, r[4], r[5].replace('|', '/')))
print(open('/verif/seeded/README.md').read()[:1500])

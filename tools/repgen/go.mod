module repgen

go 1.19

require github.com/go-text/typesetting v0.0.0

replace github.com/go-text/typesetting => /repo

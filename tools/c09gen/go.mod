module c09gen

go 1.19

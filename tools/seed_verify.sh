#!/bin/bash
# usage: seed_verify.sh <prop> <m>   -- re-verifies an agent-produced mutant in its scratch worktree /tmp/mut/<prop>
# (compiles, existing suite passes, demo fails with the patch and passes without) and stores it under /verif/seeded/<prop>-<m>/
export GOFLAGS=-mod=mod GOPROXY=off GOSUMDB=off GOTOOLCHAIN=local
P=$1; M=$2; W=/tmp/mut/$P; O=$W/_out/$M; D=/verif/seeded/$P-$M
[ -f $O/patch.diff ] || { echo "$P-$M: no patch"; exit 1; }
cd $W && git checkout -q -- . && git clean -fdq -e _out
demo_dir=$(head -3 $O/demo_test.go | grep -oE '(font|fontscan|shaping|harfbuzz|segmenter|language|unicodedata|di)(/[a-z/]+)?' | head -1 | sed 's#/zz.*##; s#/$##')
run_cmd=$(head -3 $O/demo_test.go | grep -oE 'go test[^`]*' | head -1 | sed 's#/zz.*##; s#/$##')
[ -z "$demo_dir" ] && { echo "$P-$M: cannot find demo dir"; exit 1; }
cp $O/demo_test.go $W/$demo_dir/zz_demo_test.go
cd $W/$demo_dir && go test -count=1 -run 'ZZ|Demo|zz' . > /tmp/seed_$P$M.clean.log 2>&1; clean=$?
cd $W && git apply $O/patch.diff || { echo "$P-$M: patch does not apply"; exit 1; }
go build ./... > /tmp/seed_$P$M.build.log 2>&1; build=$?
cd $W/$demo_dir && go test -count=1 -run 'ZZ|Demo|zz' . > /tmp/seed_$P$M.mut.log 2>&1; mut=$?
rm -f $W/$demo_dir/zz_demo_test.go
cd $W && go test -count=1 ./... > /tmp/seed_$P$M.suite.log 2>&1; suite=$?
git checkout -q -- . ; git clean -fdq -e _out
echo "$P-$M: demo_dir=$demo_dir build=$build suite=$suite demo_clean=$clean demo_mutant=$mut"
if [ $build = 0 ] && [ $suite = 0 ] && [ $clean = 0 ] && [ $mut != 0 ]; then
  mkdir -p $D && cp $O/patch.diff $D/patch.diff && cp $O/demo_test.go $D/demo_test.go && cp $O/notes.md $D/notes.md
  echo "{\"property\": \"$P\", \"demo_dir\": \"$demo_dir\", \"verified\": \"build ok; go test ./... passes with the patch; demo passes on the unmodified tree and fails with the patch (re-run by the main session in a scratch worktree)\"}" > $D/meta.json
  echo "  -> kept as $D"
else
  echo "  -> NOT kept"
fi

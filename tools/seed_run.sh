#!/bin/bash
# usage: seed_run.sh [tier] <seed dir name>...   -- applies each seeded change to /repo, runs the property's check, undoes it
tier=quick
cd /verif
for d in "$@"; do
  S=/verif/seeded/$d; P=${d%%-*}
  git -C /repo apply --check $S/patch.diff 2>/dev/null || { echo "$d: patch does not apply to /repo HEAD"; continue; }
  git -C /repo apply $S/patch.diff
  out=$(timeout 1500 ./check $P --tier $tier 2>&1); code=$?
  git -C /repo checkout -- . ; git -C /repo clean -fdq
  line=$(echo "$out" | grep -E "^VIOLATION|^INCONCLUSIVE" | head -2 | tr '\n' ' ' | cut -c1-300)
  summ=$(echo "$out" | tail -1 | cut -c1-160)
  echo "$d: exit=$code $line || $summ"
  python3 - "$S" "$code" "$line" <<'PY'
import json,sys
p=sys.argv[1]+'/meta.json'; m=json.load(open(p)); m['check_exit']=int(sys.argv[2]); m['check_output']=sys.argv[3]; m['detected']= int(sys.argv[2])==1
json.dump(m,open(p,'w'),indent=1)
PY
done

#!/usr/bin/env python3
"""Regenerates /verif/MANIFEST.json from the table below (checks) and the not_applicable reasons."""
import json
NOTE = ("holds only inside the bounds recorded per harness in the evidence file; trusted: go/ssa lowering, the gosym "
        "interpreter and its intrinsics, z3 5.1.0; every counter-example is replayed natively (go test -overlay) "
        "before it is reported and sampled completed paths are replayed natively as translator validation")
TECH = "solver-based bounded symbolic execution of the Go SSA of /repo (gosym + z3 5.1.0), native replay of counter-examples"
CHECKS = {
 "C01": ("the real HarfbuzzShaper.Shape (AddRunes, clamping, countClusters, sideways, RecalculateAll) executed symbolically over all run bounds, directions and contract-conforming HarfBuzz results within the text-length bound; the solver decides totality, the reported range and the cluster accounting",
         "the anchored mechanisms in package shaping, the buffer primitives (merge/sort/delete of clusters) and the nesting guard of contextual lookups (otApplyContext.recurse and a self-referencing lookup through the real dispatchApply) are decided; the rest of the font-driven interior of HarfBuzz (GSUB/GPOS/morx application, normalisation, operation budgets) is replaced by its contract and is outside the claim"),
 "C02": ("the real LineWrapper.WrapParagraph (with the real segmenter, cutRun, fillUntil, processBreakOption, postProcessLine) on every bounded paragraph: texts case-split, run layouts case-split, advances/widths/policies/truncation settings symbolic; the solver decides conservation of runes and glyphs, contiguity, advance sums for all those values",
         "paragraph length, alphabet and run count bounded as stated per tier; input runs assumed to satisfy what Shape guarantees; custom RunIterators, word/letter spacing and WrapNextLine with varying widths not covered"),
 "C03": ("same harness as C02: every line end is checked against the break opportunities of the real segmenter, the shaped cluster boundaries and the break policy, and mandatory breaks must end their line",
         "bounds as C02; one known finding (truncation commits whole runs at a run boundary that is not a break opportunity) is listed in known_findings.json; the 'split only when necessary' clause is covered only through the greedy/fit assertions of C04"),
 "C04": ("same harness as C02: line limit, truncator placement and reported range, fit of every breakable line under the most generous reading of the measured width, and greedy filling under the strictest reading of the extension",
         "bounds as C02; one known finding (UAX #14 opportunity inside a grapheme) listed; per-line varying widths through WrapNextLine not covered"),
 "C08": ("computeBidiOrdering on symbolic embedding levels against rule L2 of UAX #9 (every level sequence of the bounded length in one query family), and the visual order of every line produced by the wrap harness",
         "levels up to base+2 and 4/6 runs; levels >= base+2 are a known finding (the API carries only directions); trimming-run selection covered only through the wrap harness"),
 "C06": ("the real segmenter.Segmenter.Init on symbolic texts whose positions range over one representative per class tuple of ALL code points (class lookups summarised over that finite domain, class pointers as guarded choices, rule cascades merged into terms): grapheme boundaries against a multi-pass UAX #29 reference (GB3-GB13, GB999), mandatory line breaks and LB2/LB3/LB5 against UAX #14, reuse against a fresh segmenter; and the Line/Grapheme/Word iterators on arbitrary attribute arrays",
         "sequence length bounded (2 quick / 3 thorough); word boundaries (WB rules) and the optional line-break opportunities LB6-LB31 are NOT decided against an independent reference (only their structural consequences through the iterators and the wrap harness); correctness of the class tables themselves is outside"),
 "C07": ("the real shaping.Segmenter.Split (bidi split through x/text executed from source, script/delimiter stack, language enforcement, vertical orientation, face split) on every bounded text and sub-range, for every direction bit pattern and every font map (an uninterpreted function of rune and script hint): partition, untouched fields and per-rune uniformity decided for all of them",
         "texts bounded (length, alphabet); the bidi algorithm itself (x/text) and the script/orientation tables are trusted; the reuse clause is checked under C13"),
 "C09": ("every listed generated table parser of font/opentype/tables executed on an arbitrary symbolic byte string with arbitrary non-negative count arguments: no implicit panic, bounded allocation, termination within the unwinding bound, read count inside the input",
         "decided unit by unit (table parsers in isolation with their documented non-negative count preconditions), for the parsers listed in quick_parsers.txt / thorough_parsers.txt and inputs up to the stated length; of the font-level glue only loadHVtmx, ParseGlyf/loca, newCmap4+Lookup/Iter and Hmtx.Advance are covered (H-C09-font-*); whole-font loading, containers, CFF charstrings, bitmap/SVG payloads and the other query-time accessors are not covered"),
 "C11": ("symbolic cmap values (formats 4, 6/10, 12, 13) through the real Iter/Lookup/RuneRanges, arbitrary valid RuneSets through one step of Add/Delete/Contains/includes/serialize, addRangeToPage over every byte pair, and the coverage builder over symbolic rune ranges; the solver decides agreement for every value inside the segment/page-count bounds",
         "cmaps assumed sorted/non-overlapping (OpenType requirement); cmap0, the symbol/PUA remappers, ProcessCmap's subtable selection and the script half of the coverage are not covered"),
 "C12": ("RecalculateAll/RecomputeAdvance, sideways, AddWordSpacing/AddLetterSpacing/trimStartLetterSpacing on fully symbolic glyph metrics and the real Shape over a stubbed HarfBuzz (sideways law by two Shape calls): identities decided for all metrics within the glyph-count bound",
         "metrics bounded by 2^20; HarfBuzz by contract; scale arithmetic inside HarfBuzz outside"),
 "C13": ("history independence by comparing an object used before with a fresh one on symbolic arguments: shaping.Segmenter.Split (two inputs), segmenter.Segmenter.Init (two symbolic class sequences), HarfbuzzShaper.Shape (two inputs over two faces of one font, every font-cache size in the bound, HarfBuzz by a contract keyed by face) and LineWrapper.WrapParagraph (two paragraphs on one wrapper)",
         "the itemizer, the UAX segmenter, the shaper's font LRU and the line wrapper's scratch state are covered within the stated text bounds; the HarfBuzz plan cache (shapePlan.equal) and its per-font caches, font.Face settings (SetVariations/SetPpem followed by queries, see C17 for the write sets) and histories longer than two operations are not covered"),
 "C14": ("the real FontMap.ResolveFace / SetQuery / SetScript / rune LRU on histories over a database with symbolic coverage, with arbitrary candidate lists per (query, script): non-nil result and equality with an uncached reference computed from the current state only; and the real candidate construction (buildCandidates with the real substitution table, retainsBestMatches) on databases grown by AddFace during the history, every lookup compared with a fresh FontMap fed with the same faces, query and script",
         "H-C14-resolve stubs candidate construction by contract and makes coverage symbolic; H-C14-addface runs the real candidate construction but over small concrete alphabets (families {a,b}, runes {A,B}), so its histories are case-split rather than symbolic and the solver only prunes; maphash is a concrete FNV fold for concrete strings (collisions not explored); AddFont, font loading errors, system fonts, generic families and ResolveFaceForLang are outside; histories and the probed rune domain are bounded as stated"),
 "C15": ("symbolic execution of the real retainsBestMatches/matchStretch/matchStyle/matchWeight/filterBy* over candidate sets whose aspects are symbolic grid values (IEEE float32 terms), every request case-split; the solver decides equality with a CSS Fonts §5.2 reference for all candidate multisets of the bounded size",
         "values off the grid and larger candidate sets outside"),
 "C16": ("every deserializer of the index format (string, aspect, script/rune/lang sets, footprint, footprint list, file entry) executed on arbitrary symbolic byte strings (totality, read counts) and serialize->deserialize round trips of symbolic footprints and file entries, float aspects compared by bit pattern",
         "first two sentences of the property at the level of the binary format: the gzip layer, file I/O and the incremental refresh over file-system histories (os.ReadDir/Stat) are outside the claim; totality on fully arbitrary bytes is bounded by the stated lengths, deeper stages are reached with the count fields case-split"),
 "C17": ("write-set confinement, a schedule-independent sufficient condition for the absence of data races: a real variable TrueType font and a real static CFF font are parsed by the real loader inside the interpreter, every object existing afterwards (the shared Font, all package-level variables and tables) is frozen, and the per-goroutine API (NewFace, SetPpem/SetVariations/SetCoords, NominalGlyph, advances, extents incl. the per-face cache, outlines, names, metrics) runs with symbolic rune and glyph id: the solver decides that no reachable store targets a frozen object",
         "interleavings themselves are not explored and 'same results as running alone' follows only from confinement; two fonts: one TrueType/gvar/HVAR variable font (symbolic glyph id) and one static CFF font (five case-split glyph ids through the charstring interpreter); shaping (harfbuzz), fontscan.FontMap, CFF2 and bitmap fonts are outside the claim; a frozen-write counter-example has no native symptom and is reported when its input replays natively along a complete path"),
 "C18": ("the real propagateFlags and unsafeToBreak/setGlyphFlags/infosSetGlyphFlags on arbitrary buffers (symbolic masks, monotone clusters, buffer flags, cluster levels): flag uniformity inside clusters and exact flag placement decided for all buffers within the glyph-count bound; and the cut law at the level of ONE lookup on symbolic buffers: one application at a position (real dispatchApply, skipping iterator, context matching with nested lookups, pair/cursive/mark attachment) and one lookup over the whole buffer through the real applyString/applyForward/applyBackward driver, for GPOS and for GSUB (ligature, multiple, chained context with exception rules, reverse chaining): the pieces on either side of an unflagged cluster boundary give, concatenated, the result of the whole buffer",
         "flag uniformity and the flag-setting kernel are decided for arbitrary buffers; the cut law is decided per lookup for nine GPOS and six GSUB small concrete lookups on symbolic buffers of 2..3 (4) glyphs (H-C18-step-gpos, H-C18-string-gpos, H-C18-string-gsub); sequences of several lookups, the complex shapers (Arabic joining, Indic, Hangul...), kern/morx, fallback positioning and the whole-text cut-and-reshape on real fonts are outside the claim"),
 "C19": ("bounded symbolic execution of the real WriteTTF/checksum/writeTTFHeader and NewLoader/Tables/RawTable; an SMT solver decides every assertion for all table contents, tags and spare-capacity bytes within the table-count/length bound",
         "table count and lengths bounded"),
 "C20": ("single symbolic code point (all 2^32 rune values) through the real Lookup*/Compose/Decompose/LookupMirrorChar/LookupScript code and the real generated tables; all 256 Direction values; all byte strings up to the bound for NewLanguage; binarySearchLang over every small sorted table",
         "composition exclusions taken from golang.org/x/text/unicode/norm at run time; agreement of the tables with the UCD is outside"),
}
NA = {
 "C05": "oracle is the external C HarfBuzz (uharfbuzz); neither engine nor arbitrary font tables are encodable within any reachable bound, and no kernel of 'equals the reference implementation' survives stubbing",
 "C10": "oracle is an independent full decoder over concrete corpus glyphs; nothing symbolic to decide, and a differential run of two complete decoders on symbolic font bytes is out of reach",
}
def main():
    m = json.load(open('/verif/MANIFEST.json'))
    props = [json.loads(l)['id'] for l in open('/verif/properties.jsonl')]
    m['checks'] = []
    for pid in props:
        if pid in CHECKS:
            text, extra = CHECKS[pid]
            m['checks'].append({
                "property_id": pid, "quick_cmd": "./check %s --tier quick" % pid, "thorough_cmd": "./check %s --tier thorough" % pid,
                "evidence_file": "/verif/evidence/%s.json" % pid, "replay_cmd_template": "./check --replay {path}", "engine": "gosym",
                "level_claimed": {"category": "model_checking", "text": text, "design_ref": "DESIGN.md §3 " + pid},
                "level_note": NOTE + "; " + extra, "technique": TECH})
    m['setup_cmd'] = 'cd /verif && ./setup.sh'
    m['not_applicable'] = []
    for pid in props:
        if pid not in CHECKS:
            m['not_applicable'].append({"property_id": pid, "reason": NA.get(pid, "check not built yet (engine features pending); see DESIGN.md")})
    m['engines'][0]['serves_properties'] = [p for p in props if p in CHECKS]
    json.dump(m, open('/verif/MANIFEST.json', 'w'), indent=1)
main()

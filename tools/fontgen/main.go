// fontgen prints a Go source file (package font) embedding a small corpus font of the
// typesetting-utils module (present in the module cache) as a byte slice, for the C17 harness.
package main

import (
	"fmt"
	"os"
	"os/exec"
	"path/filepath"
	"strings"
)

// usage: fontgen [<glob below typesetting-utils@*/> <package> <variable>]
func main() {
	name := "SourceSansVariable-Roman.modcomp.ttf"
	rel, pkg, varName := "harfbuzz/fonts/"+name, "font", "vfFontBytes"
	if len(os.Args) == 4 {
		rel, pkg, varName = os.Args[1], os.Args[2], os.Args[3]
		name = filepath.Base(rel)
	}
	out, _ := exec.Command("go", "env", "GOMODCACHE").Output()
	cache := strings.TrimSpace(string(out))
	if cache == "" {
		cache = "/root/go/pkg/mod"
	}
	matches, _ := filepath.Glob(filepath.Join(cache, "github.com/go-text/typesetting-utils@*", rel))
	if len(matches) == 0 {
		fmt.Fprintln(os.Stderr, "font not found in module cache")
		os.Exit(1)
	}
	b, err := os.ReadFile(matches[len(matches)-1])
	if err != nil {
		fmt.Fprintln(os.Stderr, err)
		os.Exit(1)
	}
	fmt.Printf("//go:build verif\n\npackage %s\n\n// %s (%d bytes), embedded by /verif/tools/fontgen\nvar %s = []byte{", pkg, name, len(b), varName)
	for i, c := range b {
		if i%24 == 0 {
			fmt.Print("\n\t")
		}
		fmt.Printf("%d, ", c)
	}
	fmt.Println("\n}")
}

module fontgen

go 1.19

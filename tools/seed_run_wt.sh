#!/bin/bash
# usage: seed_run_wt.sh [-t tier] <seed dir name>...
# Development helper: like seed_run.sh but on a scratch worktree of /repo (VF_REPO), so several seeded changes can be
# checked in parallel and /repo stays untouched. The worktree and its outputs are removed afterwards.
tier=quick
if [ "$1" = "-t" ]; then tier=$2; shift 2; fi
cd /verif
for d in "$@"; do
  S=/verif/seeded/$d; P=${d%%-*}
  W=/tmp/vfseed_$d
  git -C /repo worktree remove --force $W 2>/dev/null; rm -rf $W $W.vfout
  git -C /repo worktree add -q --detach $W HEAD || continue
  if ! git -C $W apply $S/patch.diff 2>/dev/null; then echo "$d: patch does not apply to /repo HEAD"; git -C /repo worktree remove --force $W; continue; fi
  out=$(VF_REPO=$W timeout ${SEED_TIMEOUT:-1800} ./check $P --tier $tier 2>&1); code=$?
  line=$(echo "$out" | grep -E "^VIOLATION|^INCONCLUSIVE" | head -2 | tr '\n' ' ' | cut -c1-300)
  summ=$(echo "$out" | tail -1 | cut -c1-160)
  echo "$d [$tier]: exit=$code $line || $summ"
  python3 - "$S" "$code" "$line" "$tier" <<'PY'
import json,sys
p=sys.argv[1]+'/meta.json'; m=json.load(open(p)); t=sys.argv[4]
if t=='quick':
    m['check_exit']=int(sys.argv[2]); m['check_output']=sys.argv[3]; m['detected']= int(sys.argv[2])==1
else:
    m['thorough_exit']=int(sys.argv[2]); m['thorough_output']=sys.argv[3]; m['detected_thorough']= int(sys.argv[2])==1
json.dump(m,open(p,'w'),indent=1)
PY
  git -C /repo worktree remove --force $W; rm -rf $W.vfout
done

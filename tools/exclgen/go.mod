module exclgen

go 1.19

require golang.org/x/text v0.21.0

//go:build verif

package harfbuzz

import (
	"bytes"

	"github.com/go-text/typesetting/font"
	ot "github.com/go-text/typesetting/font/opentype"
	"github.com/go-text/typesetting/font/opentype/tables"
	"github.com/go-text/typesetting/language"
)

// ---- C18: the cut law at the level of ONE lookup application ----
//
// Whole-text "cut at a safe boundary and reshape" needs the complete shaper on real fonts (outside the
// claim). Its local form is decidable: apply ONE GPOS lookup (all its subtables, through the real
// dispatchApply / applyGPOS / skipping iterator / context matching / nested lookups) at a position idx of
// a buffer B, and apply the same lookup to the piece of B on one side of a cluster boundary k. If after
// the application on B the cluster next to the boundary carries no unsafe-to-break flag, both runs must
// position the glyphs of the piece identically. The subtables are small concrete tables (built as bytes
// and read by the real table parsers); glyph ids, GDEF classes, default-ignorable properties, cluster
// layout, lookup flags, idx and k are symbolic.
//
// glyph alphabet: 1, 2 = bases covered by the tables; 3 = the mark of the mark-to-base / mark-to-mark tables;
// 5 = the base mark of the mark-to-mark table; 4 = not covered.

func vfWords(vs ...uint16) []byte {
	out := make([]byte, 0, 2*len(vs))
	for _, v := range vs {
		out = append(out, byte(v>>8), byte(v))
	}
	return out
}

func vfCov(gl ...uint16) []uint16 { return append([]uint16{1, uint16(len(gl))}, gl...) }

func vfNeg(v int) uint16 { return uint16(int16(v)) }

// single adjustment of glyph 2 (the nested lookup of the contextual rules): XAdvance -30
func vfSinglePos(glyph uint16) tables.GPOSLookup {
	w := append([]uint16{1, 8, 0x0004, vfNeg(-30)}, vfCov(glyph)...)
	t, _, err := tables.ParseSinglePos(vfWords(w...))
	if err != nil {
		panic("harness: SinglePos does not parse")
	}
	return t
}

// class based kerning: (glyph 1, glyph 2) -> XAdvance -50 on the first [and XPlacement 7 on the second]
func vfPairPos2(second bool) tables.GPOSLookup {
	vf2, rec := uint16(0), []uint16{0, 0, 0, vfNeg(-50)}
	if second {
		vf2, rec = 0x0001, []uint16{0, 0, 0, 0, 0, 0, vfNeg(-50), 7}
	}
	covOff := uint16(16 + 2*len(rec))
	w := []uint16{2, covOff, 0x0004, vf2, covOff + 6, covOff + 16, 2, 2}
	w = append(w, rec...)
	w = append(w, vfCov(1)...)     // 3 words
	w = append(w, 2, 1, 1, 1, 1)   // ClassDef1 format 2: glyph 1 -> class 1
	w = append(w, 2, 1, 2, 2, 1)   // ClassDef2 format 2: glyph 2 -> class 1
	t, _, err := tables.ParsePairPos(vfWords(w...))
	if err != nil {
		panic("harness: PairPos2 does not parse")
	}
	return t
}

// glyph pair kerning: (1, 2) -> XAdvance -50 [and XPlacement 7 on the second]
func vfPairPos1(second bool) tables.GPOSLookup {
	vf2, set := uint16(0), []uint16{1, 2, vfNeg(-50)}
	if second {
		vf2, set = 0x0001, []uint16{1, 2, vfNeg(-50), 7}
	}
	w := []uint16{1, uint16(12 + 2*len(set)), 0x0004, vf2, 1, 12}
	w = append(w, set...)
	w = append(w, vfCov(1)...)
	t, _, err := tables.ParsePairPos(vfWords(w...))
	if err != nil {
		panic("harness: PairPos1 does not parse")
	}
	return t
}

// chained context, format 3. Each sequence is a list of single-glyph coverages; records point into vfNested.
func vfChain3(backtrack, input, lookahead []uint16, records [][2]uint16) tables.GPOSLookup {
	n := 1 + 1 + len(backtrack) + 1 + len(input) + 1 + len(lookahead) + 1 + 2*len(records)
	off := uint16(2 * n)
	w := []uint16{3, uint16(len(backtrack))}
	var covs []uint16
	add := func(seq []uint16) {
		for _, g := range seq {
			w = append(w, off)
			covs = append(covs, vfCov(g)...)
			off += 6
		}
	}
	add(backtrack)
	w = append(w, uint16(len(input)))
	add(input)
	w = append(w, uint16(len(lookahead)))
	add(lookahead)
	w = append(w, uint16(len(records)))
	for _, r := range records {
		w = append(w, r[0], r[1])
	}
	w = append(w, covs...)
	t, _, err := tables.ParseChainedContextualPos(vfWords(w...))
	if err != nil {
		panic("harness: ChainedContextualPos does not parse")
	}
	return t
}

// context, format 3
func vfContext3(input []uint16, records [][2]uint16) tables.GPOSLookup {
	n := 3 + len(input) + 2*len(records)
	off := uint16(2 * n)
	w := []uint16{3, uint16(len(input)), uint16(len(records))}
	var covs []uint16
	for _, g := range input {
		w = append(w, off)
		covs = append(covs, vfCov(g)...)
		off += 6
	}
	for _, r := range records {
		w = append(w, r[0], r[1])
	}
	w = append(w, covs...)
	t, _, err := tables.ParseContextualPos(vfWords(w...))
	if err != nil {
		panic("harness: ContextualPos does not parse")
	}
	return t
}

// mark 3 (class 0) attaches to the bases 1 and 2
func vfMarkBase() tables.GPOSLookup {
	w := []uint16{1, 12, 18, 1, 26, 38}
	w = append(w, vfCov(3)...)              // at 12
	w = append(w, vfCov(1, 2)...)           // at 18
	w = append(w, 1, 0, 6, 1, 10, 20)       // MarkArray at 26: one record (class 0, anchor at +6), anchor (10,20)
	w = append(w, 2, 6, 12, 1, 100, 200, 1, 300, 400) // BaseArray at 38
	t, _, err := tables.ParseMarkBasePos(vfWords(w...))
	if err != nil {
		panic("harness: MarkBasePos does not parse")
	}
	return t
}

// mark 3 (class 0) attaches to the mark 5
func vfMarkMark() tables.GPOSLookup {
	w := []uint16{1, 12, 18, 1, 24, 36}
	w = append(w, vfCov(3)...)        // at 12
	w = append(w, vfCov(5)...)        // at 18
	w = append(w, 1, 0, 6, 1, 10, 20) // Mark1Array at 24: one record (class 0, anchor at +6), anchor (10,20)
	w = append(w, 1, 4, 1, 100, 200)  // Mark2Array at 36: one record, anchor at +4
	t, _, err := tables.ParseMarkMarkPos(vfWords(w...))
	if err != nil {
		panic("harness: MarkMarkPos does not parse")
	}
	return t
}

// glyphs 1 and 2 both have entry and exit anchors
func vfCursive() tables.GPOSLookup {
	w := []uint16{1, 14, 2, 22, 28, 22, 28}
	w = append(w, vfCov(1, 2)...) // at 14
	w = append(w, 1, 5, 7)        // at 22
	w = append(w, 1, 50, 70)      // at 28
	t, _, err := tables.ParseCursivePos(vfWords(w...))
	if err != nil {
		panic("harness: CursivePos does not parse")
	}
	return t
}

const vfNbStepLookups = 9

// the feature mask of the lookup: any bit outside the glyph flags
const vfLookupMask GlyphMask = 1 << 8

// vfNested are the lookups reachable through SequenceLookupRecords: 0 = adjust glyph 1, 1 = adjust glyph 2
func vfNestedLookups() []font.GPOSLookup {
	return []font.GPOSLookup{
		{Subtables: []tables.GPOSLookup{vfSinglePos(1)}},
		{Subtables: []tables.GPOSLookup{vfSinglePos(2)}},
	}
}

func vfStepLookup(which int, flag uint16) font.GPOSLookup {
	var subs []tables.GPOSLookup
	switch which {
	case 0:
		subs = []tables.GPOSLookup{vfPairPos2(false)}
	case 1:
		subs = []tables.GPOSLookup{vfPairPos2(true)}
	case 2:
		subs = []tables.GPOSLookup{vfPairPos1(false)}
	case 3:
		subs = []tables.GPOSLookup{vfPairPos1(true)}
	case 4:
		// "ignore pos 1' 2 ; pos 1' <-30>": an exception rule without records followed by the general rule
		subs = []tables.GPOSLookup{
			vfChain3(nil, []uint16{1}, []uint16{2}, nil),
			vfChain3(nil, []uint16{1}, nil, [][2]uint16{{0, 0}}),
		}
	case 5:
		// the same with the exception on the backtrack side
		subs = []tables.GPOSLookup{
			vfChain3([]uint16{2}, []uint16{1}, nil, nil),
			vfChain3(nil, []uint16{1}, nil, [][2]uint16{{0, 0}}),
		}
	case 6:
		// "pos 1' 2' <-30>": the second glyph of the input is adjusted
		subs = []tables.GPOSLookup{vfContext3([]uint16{1, 2}, [][2]uint16{{1, 1}})}
	case 7:
		subs = []tables.GPOSLookup{vfMarkBase()}
	case 8:
		subs = []tables.GPOSLookup{vfCursive()}
	case 9:
		subs = []tables.GPOSLookup{vfMarkMark()}
	}
	return font.GPOSLookup{LookupOptions: font.LookupOptions{Flag: flag}, Subtables: subs}
}

type vfStepGlyph struct {
	gid       GID
	props     uint16
	unicode   unicodeProp
	cluster   int
	skippable bool // a mark (skipped under IgnoreMarks) or a default ignorable (ZWJ / ZWNJ)
}

func vfStepFont() *Font {
	return &Font{face: font.NewFace(&font.Font{}), faceUpem: 1000, XScale: 1000, YScale: 1000}
}

// vfStepRun applies the lookup once at position idx of a fresh buffer holding glyphs and returns the buffer.
func vfStepRun(hb *Font, lk font.GPOSLookup, nested []font.GPOSLookup, glyphs []vfStepGlyph, idx int, dir Direction) *Buffer {
	buf := NewBuffer()
	buf.Props.Direction = dir
	buf.Info = make([]GlyphInfo, len(glyphs))
	buf.Pos = make([]GlyphPosition, len(glyphs))
	for i, g := range glyphs {
		buf.Info[i] = GlyphInfo{Glyph: g.gid, Cluster: g.cluster, Mask: vfLookupMask, glyphProps: g.props, unicode: g.unicode}
	}
	buf.maxOps = 16384
	buf.idx = idx
	var c otApplyContext
	c.reset(1, hb, buf)
	c.recurseFunc = func(c *otApplyContext, li uint16) bool {
		return c.applyRecurseLookup(li, lookupGPOS(nested[li]))
	}
	c.setLookupMask(vfLookupMask)
	c.setLookupProps(lookupGPOS(lk).Props())
	// as applyForward does for one position
	if cur := buf.cur(0); cur.Mask&c.lookupMask != 0 && c.checkGlyphProperty(cur, c.lookupProps) {
		lookupGPOS(lk).dispatchApply(&c)
	}
	return buf
}

func vfSamePos(a, b GlyphPosition) bool {
	return vfAnd(vfAnd(a.XAdvance == b.XAdvance, a.YAdvance == b.YAdvance),
		vfAnd(vfAnd(a.XOffset == b.XOffset, a.YOffset == b.YOffset), vfAnd(a.attachChain == b.attachChain, a.attachType == b.attachType)))
}

func vfStepGlyphs(n int) []vfStepGlyph {
	zwj, _ := computeUnicodeProps(0x200D)
	zwnj, _ := computeUnicodeProps(0x200C)
	letter, _ := computeUnicodeProps('T')
	markProps, _ := computeUnicodeProps(0x0308)
	glyphs := make([]vfStepGlyph, n)
	cluster := 0
	descending := vfBool("descending")
	for i := range glyphs {
		g := &glyphs[i]
		g.gid = GID(vfInt("gid", 1, 5))
		switch vfInt("kind", 0, 3) {
		case 0:
			g.props, g.unicode = tables.GPBaseGlyph, letter
		case 1:
			g.props, g.unicode, g.skippable = tables.GPMark, markProps, true
		case 2:
			g.props, g.unicode, g.skippable = tables.GPBaseGlyph, zwj, true
		case 3:
			g.props, g.unicode, g.skippable = tables.GPBaseGlyph, zwnj, true
		}
		if i > 0 && vfBool("newCluster") {
			cluster++
		}
		g.cluster = cluster
	}
	if descending {
		for i := range glyphs {
			glyphs[i].cluster = cluster - glyphs[i].cluster
		}
	}
	return glyphs
}

// vfClusterFlagged reports whether any glyph of the cluster of position k carries the unsafe-to-break flag
func vfClusterFlagged(info []GlyphInfo, k int) bool {
	flagged := false
	for i := range info {
		flagged = vfOr(flagged, vfAnd(info[i].Cluster == info[k].Cluster, info[i].Mask&GlyphUnsafeToBreak != 0))
	}
	return flagged
}

func VfH_C18_step_gpos() {
	maxN := 3
	if vfThorough() {
		maxN = 4
	}
	which := vfChoice("lookup", vfNbStepLookups+1)
	n := 2 + vfChoice("n", maxN-1)
	idx := vfChoice("idx", n)
	k := 1 + vfChoice("cut", n-1) // the boundary between glyph k-1 and glyph k
	flag := uint16(0)
	if vfBool("ignoreMarks") {
		flag = uint16(otIgnoreMarks)
	}
	dir := LeftToRight
	if vfBool("rtl") {
		dir = RightToLeft
	}
	glyphs := vfStepGlyphs(n)
	vfAssume(glyphs[k-1].cluster != glyphs[k].cluster) // k is a cluster boundary

	hb := vfStepFont()
	lk := vfStepLookup(which, flag)
	nested := vfNestedLookups()
	whole := vfStepRun(hb, lk, nested, glyphs, idx, dir)

	// the cluster after the boundary in logical order is the one with the larger cluster value
	later := k
	if glyphs[k-1].cluster > glyphs[k].cluster {
		later = k - 1
	}
	safe := !vfClusterFlagged(whole.Info, later)
	vfCover("safe-boundary", safe)
	vfCover("unsafe-boundary", !safe)
	if !safe {
		vfReach("end")
		return
	}
	if k > idx {
		// the piece in front of the boundary holds the current glyph
		piece := vfStepRun(hb, lk, nested, glyphs[:k], idx, dir)
		for i := 0; i < k; i++ {
			vfAssert(vfSamePos(whole.Pos[i], piece.Pos[i]), "lookup applied to the piece before a safe boundary positions a glyph differently than on the whole text")
		}
	} else {
		piece := vfStepRun(hb, lk, nested, glyphs[k:], idx-k, dir)
		for i := k; i < n; i++ {
			vfAssert(vfSamePos(whole.Pos[i], piece.Pos[i-k]), "lookup applied to the piece after a safe boundary positions a glyph differently than on the whole text")
		}
	}
	changed := false
	for i := range whole.Pos {
		changed = vfOr(changed, !vfSamePos(whole.Pos[i], GlyphPosition{}))
	}
	vfCover("positioned", changed)
	vfReach("end")
}

// ---- C01: nested lookups are bounded (shaping does not loop or overflow the stack on any font) ----

// H-C01-recurse: the guard of otApplyContext.recurse on arbitrary counters.
func VfH_C01_recurse() {
	buf := NewBuffer()
	buf.maxOps = vfInt("maxOps", -2, 4)
	var c otApplyContext
	c.buffer = buf
	level := vfInt("nestingLevelLeft", 0, maxNestingLevel)
	c.nestingLevelLeft = level
	called := false
	if vfBool("hasRecurseFunc") {
		c.recurseFunc = func(c *otApplyContext, li uint16) bool {
			called = true
			vfAssert(c.nestingLevelLeft >= 0, "recurse: nesting budget went negative")
			return true
		}
	}
	ops := buf.maxOps
	ret := c.recurse(0)
	vfAssert(vfImplies(called, vfAnd(level > 0, ops > 0)), "recurse: nested lookup applied although the nesting or operation budget is exhausted")
	vfAssert(vfImplies(!called, !ret), "recurse: reports an application that did not happen")
	vfAssert(c.nestingLevelLeft == level, "recurse: nesting budget not restored")
	vfCover("called", called)
	vfCover("refused", !called)
	vfReach("end")
}

// H-C01-nesting: a contextual lookup whose record points back to itself (a loadable font can say so):
// the real apply code must stop after maxNestingLevel nested applications.
func VfH_C01_nesting() {
	self := vfContext3([]uint16{1}, [][2]uint16{{0, 0}})
	var chain tables.GPOSLookup = vfChain3(nil, []uint16{1}, nil, [][2]uint16{{0, 0}})
	lk := font.GPOSLookup{Subtables: []tables.GPOSLookup{self}}
	if vfBool("chained") {
		lk = font.GPOSLookup{Subtables: []tables.GPOSLookup{chain}}
	}
	n := 1 + vfChoice("n", 2)
	buf := NewBuffer()
	buf.Info = make([]GlyphInfo, n)
	buf.Pos = make([]GlyphPosition, n)
	for i := range buf.Info {
		buf.Info[i] = GlyphInfo{Glyph: 1, Cluster: i, Mask: vfLookupMask, glyphProps: tables.GPBaseGlyph}
	}
	buf.maxOps = 16384
	var c otApplyContext
	c.reset(1, vfStepFont(), buf)
	c.setLookupMask(vfLookupMask)
	depth := 0
	c.recurseFunc = func(c *otApplyContext, li uint16) bool {
		depth++
		vfAssert(depth <= maxNestingLevel, "nested lookups recurse deeper than maxNestingLevel")
		return c.applyRecurseLookup(li, lookupGPOS(lk))
	}
	lookupGPOS(lk).dispatchApply(&c)
	vfCover("nested", depth > 0)
	vfReach("end")
}

// ---- C18: the cut law for ONE lookup applied to the whole buffer (real applyString driver) ----
//
// Same law one level up: the lookup runs over the whole buffer through the real applyString /
// applyForward / applyBackward driver (accelerator digests, cursor movement, out-buffer for GSUB), and over
// the two pieces on either side of a cluster boundary that the whole-buffer run left unflagged; the
// concatenation of the pieces' results must equal the whole result.

func vfStringBuffer(glyphs []vfStepGlyph, dir Direction) *Buffer {
	buf := NewBuffer()
	buf.Props.Direction = dir
	buf.Info = make([]GlyphInfo, len(glyphs))
	buf.Pos = make([]GlyphPosition, len(glyphs))
	for i, g := range glyphs {
		buf.Info[i] = GlyphInfo{Glyph: g.gid, Cluster: g.cluster, Mask: vfLookupMask, glyphProps: g.props, unicode: g.unicode}
	}
	buf.maxOps = 16384
	return buf
}

func vfStringRunGPOS(hb *Font, lk font.GPOSLookup, nested []font.GPOSLookup, glyphs []vfStepGlyph, dir Direction) *Buffer {
	buf := vfStringBuffer(glyphs, dir)
	var c otApplyContext
	c.reset(1, hb, buf)
	c.recurseFunc = func(c *otApplyContext, li uint16) bool {
		return c.applyRecurseLookup(li, lookupGPOS(nested[li]))
	}
	c.setLookupMask(vfLookupMask)
	var accel otLayoutLookupAccelerator
	accel.init(lookupGPOS(lk))
	c.applyString(proxyGPOS, &accel)
	return buf
}

func VfH_C18_string_gpos() {
	maxN := 3
	if vfThorough() {
		maxN = 4
	}
	which := vfChoice("lookup", vfNbStepLookups+1)
	n := 2 + vfChoice("n", maxN-1)
	k := 1 + vfChoice("cut", n-1)
	flag := uint16(0)
	if vfBool("ignoreMarks") {
		flag = uint16(otIgnoreMarks)
	}
	dir := LeftToRight
	if vfBool("rtl") {
		dir = RightToLeft
	}
	glyphs := vfStepGlyphs(n)
	vfAssume(glyphs[k-1].cluster != glyphs[k].cluster)

	hb := vfStepFont()
	lk := vfStepLookup(which, flag)
	nested := vfNestedLookups()
	whole := vfStringRunGPOS(hb, lk, nested, glyphs, dir)
	later := k
	if glyphs[k-1].cluster > glyphs[k].cluster {
		later = k - 1
	}
	safe := !vfClusterFlagged(whole.Info, later)
	vfCover("safe-boundary", safe)
	vfCover("unsafe-boundary", !safe)
	if !safe {
		vfReach("end")
		return
	}
	left := vfStringRunGPOS(hb, lk, nested, glyphs[:k], dir)
	right := vfStringRunGPOS(hb, lk, nested, glyphs[k:], dir)
	for i := 0; i < k; i++ {
		vfAssert(vfSamePos(whole.Pos[i], left.Pos[i]), "lookup applied to the piece before a safe boundary positions a glyph differently than on the whole text")
	}
	for i := k; i < n; i++ {
		vfAssert(vfSamePos(whole.Pos[i], right.Pos[i-k]), "lookup applied to the piece after a safe boundary positions a glyph differently than on the whole text")
	}
	changed := false
	for i := range whole.Pos {
		changed = vfOr(changed, !vfSamePos(whole.Pos[i], GlyphPosition{}))
	}
	vfCover("positioned", changed)
	vfReach("end")
}

// ---- GSUB ----

func vfSingleSubst(glyph, by uint16) tables.GSUBLookup {
	w := append([]uint16{2, 8, 1, by}, vfCov(glyph)...)
	t, _, err := tables.ParseSingleSubs(vfWords(w...))
	if err != nil {
		panic("harness: SingleSubs does not parse")
	}
	return t
}

// 1 2 -> 9
func vfLigature() tables.GSUBLookup {
	w := []uint16{1, 18, 1, 8, 1, 4, 9, 2, 2}
	w = append(w, vfCov(1)...)
	t, _, err := tables.ParseLigatureSubs(vfWords(w...))
	if err != nil {
		panic("harness: LigatureSubs does not parse")
	}
	return t
}

// 1 -> 7 8
func vfMultiple() tables.GSUBLookup {
	w := []uint16{1, 14, 1, 8, 2, 7, 8}
	w = append(w, vfCov(1)...)
	t, _, err := tables.ParseMultipleSubs(vfWords(w...))
	if err != nil {
		panic("harness: MultipleSubs does not parse")
	}
	return t
}

func vfChainSubst3(backtrack, input, lookahead []uint16, records [][2]uint16) tables.GSUBLookup {
	n := 1 + 1 + len(backtrack) + 1 + len(input) + 1 + len(lookahead) + 1 + 2*len(records)
	off := uint16(2 * n)
	w := []uint16{3, uint16(len(backtrack))}
	var covs []uint16
	add := func(seq []uint16) {
		for _, g := range seq {
			w = append(w, off)
			covs = append(covs, vfCov(g)...)
			off += 6
		}
	}
	add(backtrack)
	w = append(w, uint16(len(input)))
	add(input)
	w = append(w, uint16(len(lookahead)))
	add(lookahead)
	w = append(w, uint16(len(records)))
	for _, r := range records {
		w = append(w, r[0], r[1])
	}
	w = append(w, covs...)
	t, _, err := tables.ParseChainedContextualSubs(vfWords(w...))
	if err != nil {
		panic("harness: ChainedContextualSubs does not parse")
	}
	return t
}

// reverse chaining single substitution of glyph 1 by 9 in the given context
func vfReverseChain(backtrack, lookahead []uint16) tables.GSUBLookup {
	n := 2 + 1 + len(backtrack) + 1 + len(lookahead) + 1 + 1
	off := uint16(2 * n)
	w := []uint16{1, off}
	covs := vfCov(1)
	off += 6
	w = append(w, uint16(len(backtrack)))
	for _, g := range backtrack {
		w = append(w, off)
		covs = append(covs, vfCov(g)...)
		off += 6
	}
	w = append(w, uint16(len(lookahead)))
	for _, g := range lookahead {
		w = append(w, off)
		covs = append(covs, vfCov(g)...)
		off += 6
	}
	w = append(w, 1, 9)
	w = append(w, covs...)
	t, _, err := tables.ParseReverseChainSingleSubs(vfWords(w...))
	if err != nil {
		panic("harness: ReverseChainSingleSubs does not parse")
	}
	return t
}

const vfNbGsubLookups = 6

func vfGsubLookup(which int, flag uint16) font.GSUBLookup {
	var subs []tables.GSUBLookup
	switch which {
	case 0:
		subs = []tables.GSUBLookup{vfLigature()}
	case 1:
		subs = []tables.GSUBLookup{vfMultiple()}
	case 2:
		// "ignore sub 1' 2; sub 1' by 9"
		subs = []tables.GSUBLookup{
			vfChainSubst3(nil, []uint16{1}, []uint16{2}, nil),
			vfChainSubst3(nil, []uint16{1}, nil, [][2]uint16{{0, 0}}),
		}
	case 3:
		// "ignore sub 2 1'; sub 1' by 9"
		subs = []tables.GSUBLookup{
			vfChainSubst3([]uint16{2}, []uint16{1}, nil, nil),
			vfChainSubst3(nil, []uint16{1}, nil, [][2]uint16{{0, 0}}),
		}
	case 4:
		subs = []tables.GSUBLookup{vfReverseChain(nil, []uint16{2})}
	case 5:
		subs = []tables.GSUBLookup{vfReverseChain([]uint16{2}, nil)}
	}
	return font.GSUBLookup{LookupOptions: font.LookupOptions{Flag: flag}, Subtables: subs}
}

func vfStringRunGSUB(hb *Font, lk font.GSUBLookup, nested []font.GSUBLookup, glyphs []vfStepGlyph) *Buffer {
	buf := vfStringBuffer(glyphs, LeftToRight)
	var c otApplyContext
	c.reset(0, hb, buf)
	c.recurseFunc = func(c *otApplyContext, li uint16) bool {
		return c.applyRecurseLookup(li, lookupGSUB(nested[li]))
	}
	c.setLookupMask(vfLookupMask)
	var accel otLayoutLookupAccelerator
	accel.init(lookupGSUB(lk))
	c.applyString(proxyGSUB, &accel)
	return buf
}

func VfH_C18_string_gsub() {
	maxN := 3
	if vfThorough() {
		maxN = 4
	}
	which := vfChoice("lookup", vfNbGsubLookups)
	n := 2 + vfChoice("n", maxN-1)
	k := 1 + vfChoice("cut", n-1)
	flag := uint16(0)
	if vfBool("ignoreMarks") {
		flag = uint16(otIgnoreMarks)
	}
	glyphs := vfStepGlyphs(n)
	vfAssume(glyphs[0].cluster <= glyphs[n-1].cluster) // ascending clusters only (substitutions merge clusters towards the smaller value)
	vfAssume(glyphs[k-1].cluster != glyphs[k].cluster)
	cut := glyphs[k].cluster

	hb := vfStepFont()
	lk := vfGsubLookup(which, flag)
	nested := []font.GSUBLookup{{Subtables: []tables.GSUBLookup{vfSingleSubst(1, 9)}}}
	whole := vfStringRunGSUB(hb, lk, nested, glyphs)

	// the boundary survives when some output glyph still starts the cluster `cut`
	nLeft, survives, flagged := 0, false, false
	for _, g := range whole.Info {
		if g.Cluster < cut {
			nLeft++
		}
		if g.Cluster == cut {
			survives = true
			if g.Mask&GlyphUnsafeToBreak != 0 {
				flagged = true
			}
		}
	}
	vfCover("merged-away", !survives)
	vfCover("unsafe-boundary", survives && flagged)
	if !survives || flagged {
		vfReach("end")
		return
	}
	vfCover("safe-boundary", true)
	left := vfStringRunGSUB(hb, lk, nested, glyphs[:k])
	right := vfStringRunGSUB(hb, lk, nested, glyphs[k:])
	vfAssert(len(left.Info) == nLeft && len(left.Info)+len(right.Info) == len(whole.Info), "substituting the pieces around a safe boundary yields a different number of glyphs than substituting the whole text")
	for i := range whole.Info {
		var p GlyphInfo
		if i < len(left.Info) {
			p = left.Info[i]
		} else {
			p = right.Info[i-len(left.Info)]
		}
		vfAssert(p.Glyph == whole.Info[i].Glyph && p.Cluster == whole.Info[i].Cluster, "substituting the pieces around a safe boundary yields different glyphs than substituting the whole text")
	}
	changed := false
	for i := range whole.Info {
		if i >= n || whole.Info[i].Glyph != glyphs[i].gid {
			changed = true
		}
	}
	vfCover("substituted", changed || len(whole.Info) != n)
	vfReach("end")
}

// ---- C18: the cut law for the legacy 'kern' machine (ot_kern.go) with an ARBITRARY kerning table ----

// vfKernTable: kerning value of a glyph pair = an uninterpreted function of the pair (0 or -50)
type vfKernTable struct{}

func (vfKernTable) KernPair(left, right GID) int16 {
	if vfUF("kernPair", uint64(left), uint64(right))&1 == 1 {
		return -50
	}
	return 0
}

func vfKernRun(hb *Font, glyphs []vfStepGlyph, dir Direction, crossStream bool) *Buffer {
	buf := vfStringBuffer(glyphs, dir)
	kern(vfKernTable{}, crossStream, hb, buf, vfLookupMask, false)
	return buf
}

func VfH_C18_string_kern() {
	maxN := 3
	if vfThorough() {
		maxN = 4
	}
	n := 2 + vfChoice("n", maxN-1)
	k := 1 + vfChoice("cut", n-1)
	crossStream := vfChoice("crossStream", 2) == 1
	dir := LeftToRight
	if vfBool("vertical") {
		dir = TopToBottom
	}
	glyphs := vfStepGlyphs(n)
	vfAssume(glyphs[k-1].cluster != glyphs[k].cluster)
	hb := vfStepFont()
	whole := vfKernRun(hb, glyphs, dir, crossStream)
	later := k
	if glyphs[k-1].cluster > glyphs[k].cluster {
		later = k - 1
	}
	safe := !vfClusterFlagged(whole.Info, later)
	vfCover("safe-boundary", safe)
	vfCover("unsafe-boundary", !safe)
	if !safe {
		vfReach("end")
		return
	}
	left := vfKernRun(hb, glyphs[:k], dir, crossStream)
	right := vfKernRun(hb, glyphs[k:], dir, crossStream)
	for i := 0; i < k; i++ {
		vfAssert(vfSamePos(whole.Pos[i], left.Pos[i]), "kerning the piece before a safe boundary positions a glyph differently than on the whole text")
	}
	// known finding (inherited from the reference implementation): after a pair was looked at, the machine
	// jumps to its second glyph, so a skipped glyph (mark, ZWJ, ZWNJ) is never tried as FIRST glyph of a pair - unless it starts the buffer
	vfKnown("C18-kern-pair-starting-with-skipped-mark", glyphs[k].skippable)
	for i := k; i < n; i++ {
		vfAssert(vfSamePos(whole.Pos[i], right.Pos[i-k]), "kerning the piece after a safe boundary positions a glyph differently than on the whole text")
	}
	vfReach("end")
}

// H-C01-longcontext: contextual rules longer than the match buffer (maxContextLength glyphs): a (chained)
// context rule of 63..66 input glyphs applied to a buffer of as many matching glyphs must neither overflow the
// match positions nor loop.
func VfH_C01_longcontext() {
	n := maxContextLength - 1 + vfChoice("extra", 4) // 63..66
	input := make([]uint16, n)
	for i := range input {
		input[i] = 1
	}
	var sub tables.GPOSLookup
	if vfBool("chained") {
		sub = vfChain3([]uint16{1}, input, []uint16{1}, [][2]uint16{{uint16(n - 1), 0}})
	} else {
		sub = vfContext3(input, [][2]uint16{{uint16(n - 1), 0}})
	}
	lk := font.GPOSLookup{Subtables: []tables.GPOSLookup{sub}}
	nested := vfNestedLookups()
	m := n + 2
	buf := NewBuffer()
	buf.Info = make([]GlyphInfo, m)
	buf.Pos = make([]GlyphPosition, m)
	for i := range buf.Info {
		buf.Info[i] = GlyphInfo{Glyph: 1, Cluster: i, Mask: vfLookupMask, glyphProps: tables.GPBaseGlyph}
	}
	buf.maxOps = 16384
	buf.idx = 1
	var c otApplyContext
	c.reset(1, vfStepFont(), buf)
	c.setLookupMask(vfLookupMask)
	c.recurseFunc = func(c *otApplyContext, li uint16) bool {
		return c.applyRecurseLookup(li, lookupGPOS(nested[li]))
	}
	lookupGPOS(lk).dispatchApply(&c)
	vfReach("end")
}

// H-C01-malformed-gpos: GPOS subtables whose coverage lists MORE glyphs than the arrays they index
// (entry/exit records, pair sets, value records, mark and base arrays, mark2 records), whose mark class
// exceeds the class count, or whose (chained) context record names a lookup the font does not have, stored directly or behind an Extension lookup, inside a minimal font file
// (cmap, head, maxp, GPOS written by the real WriteTTF) that goes through the real font.NewFont: either the
// loader drops the table, or applying the loaded lookup at the last covered glyph is total.
func vfMalformedSubtable(which int) (lookupType uint16, w []uint16, cur GID) {
	cur = 2 // the second glyph of the coverage
	switch which {
	case 0: // cursive: coverage {1,2}, one entry/exit record
		w = []uint16{1, 10, 1, 18, 24}
		w = append(w, vfCov(1, 2)...) // at 10
		w = append(w, 1, 5, 7)        // at 18
		w = append(w, 1, 50, 70)      // at 24
		return 3, w, cur
	case 1: // pair format 1: coverage {1,2}, one pair set
		w = []uint16{1, 18, 0x0004, 0, 1, 12, 1, 2, vfNeg(-50)}
		w = append(w, vfCov(1, 2)...)
		return 2, w, cur
	case 2: // single format 2: coverage {1,2}, one value record
		w = []uint16{2, 10, 0x0004, 1, vfNeg(-30)}
		w = append(w, vfCov(1, 2)...)
		return 1, w, cur
	case 3: // mark-to-base: mark coverage {2,3}, one mark record
		w = []uint16{1, 12, 20, 1, 28, 40}
		w = append(w, vfCov(2, 3)...)
		w = append(w, vfCov(1, 5)...)
		w = append(w, 1, 0, 6, 1, 10, 20)
		w = append(w, 2, 6, 12, 1, 100, 200, 1, 300, 400)
		return 4, w, 3
	case 4: // mark-to-base: base coverage {1,5}, one base record
		w = []uint16{1, 12, 18, 1, 26, 38}
		w = append(w, vfCov(3)...)
		w = append(w, vfCov(1, 5)...)
		w = append(w, 1, 0, 6, 1, 10, 20)
		w = append(w, 1, 4, 1, 100, 200)
		return 4, w, 3
	case 5: // mark-to-base: mark class 3 with one class
		w = []uint16{1, 12, 18, 1, 26, 38}
		w = append(w, vfCov(3)...)
		w = append(w, vfCov(1, 5)...)
		w = append(w, 1, 3, 6, 1, 10, 20)
		w = append(w, 2, 6, 12, 1, 100, 200, 1, 300, 400)
		return 4, w, 3
	case 6: // mark-to-mark: mark2 coverage {5,6}, one mark2 record
		w = []uint16{1, 12, 18, 1, 26, 38}
		w = append(w, vfCov(3)...)
		w = append(w, vfCov(5, 6)...)
		w = append(w, 1, 0, 6, 1, 10, 20)
		w = append(w, 1, 4, 1, 100, 200)
		return 6, w, 3
	case 7: // chained context format 3: input {2}, one record pointing to lookup 5 (the font has one lookup)
		w = []uint16{3, 0, 1, 16, 0, 1, 0, 5}
		w = append(w, vfCov(2)...)
		return 8, w, cur
	default: // context format 3: input {2}, one record pointing to lookup 5
		w = []uint16{3, 1, 1, 12, 0, 5}
		w = append(w, vfCov(2)...)
		return 7, w, cur
	}
}

func vfMinimalFontWithGPOS(lookupType uint16, sub []uint16, extension bool) []byte {
	if extension {
		sub = append([]uint16{1, lookupType, 0, 8}, sub...) // ExtensionPos format 1
		lookupType = 9
	}
	gpos := []uint16{1, 0, 10, 12, 14, // header: script list at 10, feature list at 12, lookup list at 14
		0,    // script list
		0,    // feature list
		1, 4, // lookup list: one lookup at +4
		lookupType, 0, 1, 8} // lookup: type, flag, one subtable at +8
	gpos = append(gpos, sub...)
	cmap := []uint16{0, 1, 3, 1, 0, 12, // one (3,1) record at offset 12
		4, 24, 0, 2, 2, 0, 0, 0xFFFF, 0, 0xFFFF, 1, 0}
	head := make([]byte, 54)
	head[18], head[19] = 0x03, 0xE8 // unitsPerEm 1000
	maxp := []byte{0, 0, 0x50, 0, 0, 8}
	return ot.WriteTTF([]ot.Table{
		{Tag: ot.MustNewTag("GPOS"), Content: vfWords(gpos...)},
		{Tag: ot.MustNewTag("cmap"), Content: vfWords(cmap...)},
		{Tag: ot.MustNewTag("head"), Content: head},
		{Tag: ot.MustNewTag("maxp"), Content: maxp},
	})
}

func VfH_C01_malformed_gpos() {
	which := vfChoice("table", 9)
	extension := vfChoice("extension", 2) == 1
	lookupType, sub, cur := vfMalformedSubtable(which)
	file := vfMinimalFontWithGPOS(lookupType, sub, extension)
	ld, err := ot.NewLoader(bytes.NewReader(file))
	if err != nil {
		panic("harness: font file does not load")
	}
	ft, err := font.NewFont(ld)
	if err != nil {
		panic("harness: minimal font rejected")
	}
	vfCover("loaded", len(ft.GPOS.Lookups) == 1)
	vfCover("dropped", len(ft.GPOS.Lookups) == 0)
	if len(ft.GPOS.Lookups) == 0 {
		vfReach("end")
		return
	}
	lk := ft.GPOS.Lookups[0]
	// the current glyph is the last covered one; its neighbours are the last glyphs of the other coverages
	prev := GID(5)
	if which == 6 {
		prev = 6
	}
	glyphs := []vfStepGlyph{{gid: prev, props: tables.GPBaseGlyph}, {gid: cur, props: tables.GPBaseGlyph}, {gid: 2, props: tables.GPBaseGlyph}}
	if which >= 3 && which <= 6 {
		glyphs[1].props = tables.GPMark
	}
	if which == 6 {
		glyphs[0].props = tables.GPMark
	}
	for i := range glyphs {
		glyphs[i].cluster = i
	}
	// as applyForward does for one position, with the real recursion into the font's own lookup list
	buf := vfStringBuffer(glyphs, LeftToRight)
	buf.idx = 1
	var c otApplyContext
	c.reset(1, NewFont(font.NewFace(ft)), buf)
	c.recurseFunc = proxyGPOS.recurseFunc
	c.setLookupMask(vfLookupMask)
	c.setLookupProps(lookupGPOS(lk).Props())
	if cur := buf.cur(0); c.checkGlyphProperty(cur, c.lookupProps) {
		lookupGPOS(lk).dispatchApply(&c)
	}
	vfReach("end")
}

// H-C01-malformed-gsub: the same end-to-end exercise for GSUB: subtables whose coverage lists more glyphs than
// the array they index (alternate sets, sequences, ligature sets, reverse-chain substitutes) or whose chained
// context names a missing lookup, directly or behind an Extension lookup, in a font file loaded by font.NewFont
// and applied over a buffer by the real applyString.
func vfMalformedGsubSubtable(which int) (lookupType uint16, w []uint16) {
	switch which {
	case 0: // alternate: coverage {1,2}, one alternate set
		w = []uint16{1, 12, 1, 8, 1, 9}
		w = append(w, vfCov(1, 2)...)
		return 3, w
	case 1: // multiple: coverage {1,2}, one sequence
		w = []uint16{1, 14, 1, 8, 2, 7, 8}
		w = append(w, vfCov(1, 2)...)
		return 2, w
	case 2: // ligature: coverage {1,2}, one ligature set
		w = []uint16{1, 18, 1, 8, 1, 4, 9, 2, 2}
		w = append(w, vfCov(1, 2)...)
		return 4, w
	case 3: // reverse chaining: coverage {1,2}, one substitute
		w = []uint16{1, 12, 0, 0, 1, 9}
		w = append(w, vfCov(1, 2)...)
		return 8, w
	default: // chained context format 3: input {2}, one record pointing to lookup 5
		w = []uint16{3, 0, 1, 16, 0, 1, 0, 5}
		w = append(w, vfCov(2)...)
		return 6, w
	}
}

func VfH_C01_malformed_gsub() {
	which := vfChoice("table", 5)
	extension := vfChoice("extension", 2) == 1
	lookupType, sub := vfMalformedGsubSubtable(which)
	if extension {
		sub = append([]uint16{1, lookupType, 0, 8}, sub...) // ExtensionSubst format 1
		lookupType = 7
	}
	gsub := []uint16{1, 0, 10, 12, 14, 0, 0, 1, 4, lookupType, 0, 1, 8}
	gsub = append(gsub, sub...)
	cmap := []uint16{0, 1, 3, 1, 0, 12, 4, 24, 0, 2, 2, 0, 0, 0xFFFF, 0, 0xFFFF, 1, 0}
	head := make([]byte, 54)
	head[18], head[19] = 0x03, 0xE8
	file := ot.WriteTTF([]ot.Table{
		{Tag: ot.MustNewTag("GSUB"), Content: vfWords(gsub...)},
		{Tag: ot.MustNewTag("cmap"), Content: vfWords(cmap...)},
		{Tag: ot.MustNewTag("head"), Content: head},
		{Tag: ot.MustNewTag("maxp"), Content: []byte{0, 0, 0x50, 0, 0, 8}},
	})
	ld, err := ot.NewLoader(bytes.NewReader(file))
	if err != nil {
		panic("harness: font file does not load")
	}
	ft, err := font.NewFont(ld)
	if err != nil {
		panic("harness: minimal font rejected")
	}
	vfCover("loaded", len(ft.GSUB.Lookups) == 1)
	vfCover("dropped", len(ft.GSUB.Lookups) == 0)
	if len(ft.GSUB.Lookups) == 0 {
		vfReach("end")
		return
	}
	glyphs := []vfStepGlyph{{gid: 1, props: tables.GPBaseGlyph}, {gid: 2, props: tables.GPBaseGlyph}, {gid: 2, props: tables.GPBaseGlyph}}
	for i := range glyphs {
		glyphs[i].cluster = i
	}
	buf := vfStringBuffer(glyphs, LeftToRight)
	var c otApplyContext
	c.reset(0, NewFont(font.NewFace(ft)), buf)
	c.recurseFunc = proxyGSUB.recurseFunc
	c.setLookupMask(vfLookupMask)
	var accel otLayoutLookupAccelerator
	accel.init(lookupGSUB(ft.GSUB.Lookups[0]))
	c.applyString(proxyGSUB, &accel)
	vfReach("end")
}

// H-C01-markfilter: a lookup that asks for a mark filtering set the font's GDEF does not have (here: no GDEF
// at all), applied over a buffer holding a mark: the real loader, the real skipping iterator.
func VfH_C01_markfilter() {
	set := uint16(vfChoice("markFilteringSet", 3))
	pair := []uint16{2, 24, 0x0004, 0, 30, 40, 2, 2, 0, 0, 0, vfNeg(-50)}
	pair = append(pair, vfCov(1)...)
	pair = append(pair, 2, 1, 1, 1, 1)
	pair = append(pair, 2, 1, 2, 2, 1)
	gpos := []uint16{1, 0, 10, 12, 14, 0, 0, 1, 4,
		2, 0x0010, 1, 10, set} // lookup: pair positioning, UseMarkFilteringSet, one subtable at +10, the set index
	gpos = append(gpos, pair...)
	cmap := []uint16{0, 1, 3, 1, 0, 12, 4, 24, 0, 2, 2, 0, 0, 0xFFFF, 0, 0xFFFF, 1, 0}
	head := make([]byte, 54)
	head[18], head[19] = 0x03, 0xE8
	file := ot.WriteTTF([]ot.Table{
		{Tag: ot.MustNewTag("GPOS"), Content: vfWords(gpos...)},
		{Tag: ot.MustNewTag("cmap"), Content: vfWords(cmap...)},
		{Tag: ot.MustNewTag("head"), Content: head},
		{Tag: ot.MustNewTag("maxp"), Content: []byte{0, 0, 0x50, 0, 0, 8}},
	})
	ld, err := ot.NewLoader(bytes.NewReader(file))
	if err != nil {
		panic("harness: font file does not load")
	}
	ft, err := font.NewFont(ld)
	if err != nil {
		panic("harness: minimal font rejected")
	}
	vfCover("loaded", len(ft.GPOS.Lookups) == 1)
	if len(ft.GPOS.Lookups) == 0 {
		vfReach("end")
		return
	}
	glyphs := []vfStepGlyph{{gid: 1, props: tables.GPBaseGlyph}, {gid: 3, props: tables.GPMark, cluster: 1}, {gid: 2, props: tables.GPBaseGlyph, cluster: 2}}
	buf := vfStringBuffer(glyphs, LeftToRight)
	var c otApplyContext
	c.reset(1, NewFont(font.NewFace(ft)), buf)
	c.recurseFunc = proxyGPOS.recurseFunc
	c.setLookupMask(vfLookupMask)
	var accel otLayoutLookupAccelerator
	accel.init(lookupGPOS(ft.GPOS.Lookups[0]))
	c.applyString(proxyGPOS, &accel)
	vfReach("end")
}

// H-C01-layout-indices: the whole Buffer.Shape on a loadable font whose script / feature lists name a feature
// or a lookup the font does not have (indexes 0, 1 or 7 with one feature and one lookup): shaping is total.
func VfH_C01_layout_indices() {
	idx := [...]uint16{0, 1, 7}
	featIdx := idx[vfChoice("featureIndex", 3)]
	lookupIdx := idx[vfChoice("lookupIndex", 3)]
	g := []uint16{1, 0, 10, 30, 44}
	g = append(g, 1, 0x4446, 0x4C54, 8, 4, 0, 0, 0xFFFF, 1, featIdx) // script list: DFLT, default language system
	g = append(g, 1, 0x6C69, 0x6761, 8, 0, 1, lookupIdx)             // feature list: 'liga'
	g = append(g, 1, 4, 1, 0, 1, 8, 1, 6, 0, 1, 1, 0)                // lookup list: one single substitution
	cmap := []uint16{0, 1, 3, 1, 0, 12, 4, 24, 0, 2, 2, 0, 0, 0xFFFF, 0, 0xFFFF, 1, 0}
	head := make([]byte, 54)
	head[18], head[19] = 0x03, 0xE8
	tag := "GSUB"
	if vfChoice("table", 2) == 1 {
		tag = "GPOS"
		g[len(g)-6], g[len(g)-5], g[len(g)-4] = 1, 8, 0 // single positioning format 1, coverage at 8, no value
		g = append(g[:len(g)-3], 1, 1, 0)
	}
	file := ot.WriteTTF([]ot.Table{
		{Tag: ot.MustNewTag(tag), Content: vfWords(g...)},
		{Tag: ot.MustNewTag("cmap"), Content: vfWords(cmap...)},
		{Tag: ot.MustNewTag("head"), Content: head},
		{Tag: ot.MustNewTag("maxp"), Content: []byte{0, 0, 0x50, 0, 0, 8}},
	})
	ld, err := ot.NewLoader(bytes.NewReader(file))
	if err != nil {
		panic("harness: font file does not load")
	}
	ft, err := font.NewFont(ld)
	if err != nil {
		panic("harness: minimal font rejected")
	}
	buf := NewBuffer()
	buf.AddRunes([]rune("AB"), 0, -1)
	buf.Props = SegmentProperties{Direction: LeftToRight, Script: language.Latin}
	buf.Shape(NewFont(font.NewFace(ft)), nil)
	vfCover("shaped", len(buf.Info) == 2)
	vfReach("end")
}

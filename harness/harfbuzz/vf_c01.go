//go:build verif

package harfbuzz

// ---- C01: cluster-preserving buffer primitives, one step from an arbitrary valid buffer state ----

// vfMonoBuffer: n glyphs, clusters monotone (non-decreasing, or non-increasing for RTL buffers),
// distinct glyph tags, symbolic masks, Pos in sync (tagged), no out-buffer, cursor at 0.
func vfMonoBuffer(n int) (b *Buffer, increasing bool) {
	increasing = vfChoice("decreasingClusters", 2) == 0
	b = &Buffer{Info: make([]GlyphInfo, n), Pos: make([]GlyphPosition, n)}
	for i := range b.Info {
		b.Info[i].Cluster = vfInt("cluster", 0, 7)
		b.Info[i].Mask = GlyphMask(vfU32("mask"))
		b.Info[i].Glyph = GID(100 + i)
		b.Pos[i].XAdvance = Position(100 + i)
		if i > 0 {
			if increasing {
				vfAssume(b.Info[i-1].Cluster <= b.Info[i].Cluster)
			} else {
				vfAssume(b.Info[i-1].Cluster >= b.Info[i].Cluster)
			}
		}
	}
	b.ClusterLevel = ClusterLevel(vfInt("clusterLevel", 0, 1)) // the two monotone levels
	return
}

func vfMinCluster(infos []GlyphInfo) int {
	m := 1 << 30
	for _, g := range infos {
		m = vfIteInt(g.Cluster < m, g.Cluster, m)
	}
	return m
}

func vfCheckMonotone(infos []GlyphInfo, increasing bool, what string) {
	for i := 1; i < len(infos); i++ {
		if increasing {
			vfAssert(infos[i-1].Cluster <= infos[i].Cluster, what+": clusters are no longer monotone")
		} else {
			vfAssert(infos[i-1].Cluster >= infos[i].Cluster, what+": clusters are no longer monotone")
		}
	}
}

func vfWasCluster(before []GlyphInfo, c int) bool {
	ok := false
	for _, g := range before {
		ok = vfOr(ok, g.Cluster == c)
	}
	return ok
}

// H-C01-buf-merge: mergeClusters(start, end) gives the whole range the smallest cluster of the range,
// keeps the buffer monotone (extending the merge as needed) and invents no cluster value.
func VfH_C01_buf_merge() {
	max := 4
	if vfThorough() {
		max = 6
	}
	n := 1 + vfChoice("nglyphs", max)
	b, inc := vfMonoBuffer(n)
	before := append([]GlyphInfo(nil), b.Info...)
	start, end := vfInt("start", 0, n), vfInt("end", 0, n)
	vfAssume(start <= end)
	b.mergeClusters(start, end)
	vfAssert(len(b.Info) == n, "mergeClusters changed the number of glyphs")
	minRange := 1 << 30
	for i := range before {
		in := vfAnd(start <= i, i < end)
		minRange = vfIteInt(vfAnd(in, before[i].Cluster < minRange), before[i].Cluster, minRange)
	}
	for i := range b.Info {
		in := vfAnd(start <= i, i < end)
		if end-start >= 2 {
			vfAssert(vfImplies(in, b.Info[i].Cluster == minRange), "mergeClusters: a glyph of the range does not carry the smallest cluster of the range")
		}
		vfAssert(b.Info[i].Cluster <= before[i].Cluster, "mergeClusters raised a cluster value")
		vfAssert(vfWasCluster(before, b.Info[i].Cluster), "mergeClusters invented a cluster value")
		vfAssert(b.Info[i].Glyph == before[i].Glyph, "mergeClusters moved a glyph")
	}
	vfCheckMonotone(b.Info, inc, "mergeClusters")
	vfAssert(vfMinCluster(b.Info) == vfMinCluster(before), "mergeClusters lost the smallest cluster of the buffer")
	vfCover("merged", end-start >= 2)
	vfReach("end")
}

// H-C01-buf-sort: the cluster-aware insertion sort orders the range by the comparator, keeps every glyph
// exactly once, keeps the buffer monotone and the smallest cluster alive, and invents no cluster value.
func VfH_C01_buf_sort() {
	max := 4
	if vfThorough() {
		max = 5
	}
	n := 2 + vfChoice("nglyphs", max-1)
	b, inc := vfMonoBuffer(n)
	keys := make([]uint16, n)
	for i := range b.Info {
		keys[i] = uint16(vfInt("sortKey", 0, 3))
		b.Info[i].glyphProps = keys[i] // the comparator reads this field
	}
	before := append([]GlyphInfo(nil), b.Info...)
	start, end := vfInt("start", 0, n), vfInt("end", 0, n)
	vfAssume(start <= end)
	b.sort(start, end, func(x, y *GlyphInfo) int { return int(x.glyphProps) - int(y.glyphProps) })
	vfAssert(len(b.Info) == n, "sort changed the number of glyphs")
	seen := 0
	for i := range b.Info {
		in := vfAnd(start <= i, i < end)
		if i > 0 {
			vfAssert(vfImplies(vfAnd(in, start <= i-1), b.Info[i-1].glyphProps <= b.Info[i].glyphProps), "sort: range not ordered by the comparator")
		}
		vfAssert(vfImplies(!in, b.Info[i].Glyph == before[i].Glyph), "sort moved a glyph outside the range")
		tag := int(b.Info[i].Glyph) - 100
		vfAssert(0 <= tag && tag < n, "sort: unknown glyph")
		seen |= 1 << uint(vfConcrete(tag))
		vfAssert(vfWasCluster(before, b.Info[i].Cluster), "sort invented a cluster value")
	}
	vfAssert(seen == 1<<uint(n)-1, "sort lost or duplicated a glyph")
	vfCheckMonotone(b.Info, inc, "sort")
	vfAssert(vfMinCluster(b.Info) == vfMinCluster(before), "sort lost the smallest cluster of the buffer")
	vfReach("end")
}

// H-C01-buf-delete: deleteGlyphsInplace removes exactly the filtered glyphs, keeps Pos in step with Info,
// keeps the buffer monotone, and the smallest cluster survives as long as one glyph remains
// (the rune accounting of Shape relies on it).
func VfH_C01_buf_delete() {
	max := 4
	if vfThorough() {
		max = 6
	}
	n := 1 + vfChoice("nglyphs", max)
	b, inc := vfMonoBuffer(n)
	for i := range b.Info {
		b.Info[i].glyphProps = uint16(vfInt("delete", 0, 1))
	}
	before := append([]GlyphInfo(nil), b.Info...)
	b.deleteGlyphsInplace(func(g *GlyphInfo) bool { return g.glyphProps == 1 })
	vfAssert(len(b.Pos) == len(b.Info), "deleteGlyphsInplace: Pos and Info lengths differ")
	k := 0
	for i := range before {
		if before[i].glyphProps == 1 {
			continue
		}
		vfAssert(k < len(b.Info) && b.Info[k].Glyph == before[i].Glyph, "deleteGlyphsInplace removed or reordered a kept glyph")
		vfAssert(b.Pos[k].XAdvance == Position(before[i].Glyph), "deleteGlyphsInplace: positions out of step with glyphs")
		vfAssert(vfWasCluster(before, b.Info[k].Cluster), "deleteGlyphsInplace invented a cluster value")
		k++
	}
	vfAssert(k == len(b.Info), "deleteGlyphsInplace kept a filtered glyph")
	vfCheckMonotone(b.Info, inc, "deleteGlyphsInplace")
	if len(b.Info) > 0 {
		vfAssert(vfMinCluster(b.Info) == vfMinCluster(before), "deleteGlyphsInplace lost the smallest cluster (runes of the deleted glyphs are no longer accounted for)")
	}
	vfCover("deleted", len(b.Info) < n && len(b.Info) > 0)
	vfReach("end")
}

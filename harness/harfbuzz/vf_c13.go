//go:build verif

package harfbuzz

import (
	"bytes"

	"github.com/go-text/typesetting/font"
	ot "github.com/go-text/typesetting/font/opentype"
	"github.com/go-text/typesetting/font/opentype/tables"
	"github.com/go-text/typesetting/language"
)

// ---- C13: the shape-plan cache of a reused Buffer ----
//
// A Buffer keeps, per face, the shape plans it compiled. The plan of a variable font depends on the
// variation coordinates of the face (GSUB/GPOS FeatureVariations pick alternate lookups, the 'rvrn'
// mechanism). The harness parses a real variable font with a FeatureVariations table inside the
// interpreter, makes the two successive coordinate settings of ONE face symbolic, and lets the solver
// decide whether the plan a used buffer hands out for the second setting is the plan a fresh buffer
// compiles for it.

func vfPlanFace() *font.Face {
	ld, err := ot.NewLoader(bytes.NewReader(vfPlanFontBytes))
	if err != nil {
		panic("harness: font does not load")
	}
	ft, err := font.NewFont(ld)
	if err != nil {
		panic("harness: font does not parse")
	}
	return font.NewFace(ft)
}

func vfPlanCoords(name string, n int) []tables.Coord {
	out := make([]tables.Coord, n)
	for i := range out {
		c := vfI16(name)
		vfAssume(-16384 <= c && c <= 16384) // normalised F2Dot14 coordinates in [-1, 1]
		out[i] = tables.Coord(c)
	}
	return out
}

func vfPlanSame(got, want *shapePlan) {
	vfAssert(got.shaper.key == want.shaper.key, "reused buffer: cached plan was compiled for other variation indices")
	for t := 0; t < 2; t++ {
		g, w := got.shaper.plan.map_.lookups[t], want.shaper.plan.map_.lookups[t]
		vfAssert(len(g) == len(w), "reused buffer: cached plan has a different number of lookups than a fresh plan")
		for i := range g {
			vfAssert(g[i] == w[i], "reused buffer: cached plan applies different lookups than a fresh plan")
		}
		gs, ws := got.shaper.plan.map_.stages[t], want.shaper.plan.map_.stages[t]
		vfAssert(len(gs) == len(ws), "reused buffer: cached plan has different stages than a fresh plan")
		for i := range gs {
			vfAssert(gs[i].lastLookup == ws[i].lastLookup, "reused buffer: cached plan has different stages than a fresh plan")
		}
	}
	gf, wf := got.shaper.plan.map_.features, want.shaper.plan.map_.features
	vfAssert(len(gf) == len(wf), "reused buffer: cached plan has different features than a fresh plan")
	for i := range gf {
		vfAssert(gf[i] == wf[i], "reused buffer: cached plan has different features than a fresh plan")
	}
}

func VfH_C13_plan() {
	face := vfPlanFace()
	const nAxes = 2 // wght, CNTR (AdobeVFPrototype)
	props := SegmentProperties{Direction: LeftToRight, Script: language.Latin}
	var feats []Feature
	if vfChoice("features", 2) == 1 {
		feats = []Feature{{Tag: ot.MustNewTag("kern"), Value: uint32(vfChoice("kernValue", 2)), Start: FeatureGlobalStart, End: FeatureGlobalEnd}}
	}

	used := NewBuffer()
	face.SetCoords(vfPlanCoords("first", nAxes))
	f1 := NewFont(face)
	used.newShapePlanCached(f1, props, feats, f1.varCoords())

	// the same face moves to another instance, as an animation of the variations does
	face.SetCoords(vfPlanCoords("second", nAxes))
	f2 := NewFont(face)
	got := used.newShapePlanCached(f2, props, feats, f2.varCoords())
	want := NewBuffer().newShapePlanCached(f2, props, feats, f2.varCoords())
	vfPlanSame(got, want)
	vfCover("cache-hit", len(used.planCache[f2.face]) == 1)
	vfCover("cache-miss", len(used.planCache[f2.face]) == 2)
	vfReach("end")
}

//go:build verif

package harfbuzz

// vfBuffer: arbitrary buffer of n glyphs with symbolic masks and monotone (non-decreasing) clusters.
func vfBuffer(n int) *Buffer {
	b := &Buffer{Info: make([]GlyphInfo, n), Pos: make([]GlyphPosition, n)}
	for i := range b.Info {
		b.Info[i].Cluster = vfInt("cluster", 0, 7)
		b.Info[i].Mask = GlyphMask(vfU32("mask"))
		if i > 0 {
			vfAssume(b.Info[i-1].Cluster <= b.Info[i].Cluster)
		}
	}
	b.Flags = ShappingOptions(vfU16("bufferFlags"))
	lvl := vfInt("clusterLevel", 0, 2)
	b.ClusterLevel = ClusterLevel(lvl)
	return b
}

// H-C18-propagate: after propagateFlags every glyph of a cluster carries identical flag bits; with
// tatweel production off, unsafe-to-break is set on a cluster iff it was set on one of its glyphs.
func VfH_C18_propagate() {
	max := 4
	if vfThorough() {
		max = 6
	}
	n := 1 + vfChoice("nglyphs", max)
	b := vfBuffer(n)
	b.scratchFlags |= bsfHasGlyphFlags // invariant of the shaper: set whenever a glyph flag was set
	before := append([]GlyphInfo(nil), b.Info...)
	propagateFlags(b)
	for i := range b.Info {
		anyUTB := false
		for j := range b.Info {
			same := b.Info[i].Cluster == b.Info[j].Cluster
			vfAssert(vfImplies(same, b.Info[i].Mask&glyphFlagDefined == b.Info[j].Mask&glyphFlagDefined), "glyph flags differ inside one cluster")
			anyUTB = vfOr(anyUTB, vfAnd(same, before[j].Mask&GlyphUnsafeToBreak != 0))
		}
		vfAssert(b.Info[i].Cluster == before[i].Cluster, "propagateFlags changed a cluster value")
		if b.Flags&ProduceSafeToInsertTatweel == 0 {
			vfAssert((b.Info[i].Mask&GlyphUnsafeToBreak != 0) == anyUTB, "unsafe-to-break of a cluster is not the union over its glyphs")
		} else {
			vfAssert(vfImplies(anyUTB, b.Info[i].Mask&GlyphUnsafeToBreak != 0), "unsafe-to-break flag lost by propagateFlags")
		}
	}
	vfCover("shared", n > 1 && b.Info[0].Cluster == b.Info[1].Cluster)
	vfReach("end")
}

// H-C18-setflags: unsafeToBreak(start, end) flags every cluster of the range except the one with the
// smallest cluster value, touches nothing outside the range, and records that flags were set.
func VfH_C18_setflags() {
	max := 4
	if vfThorough() {
		max = 6
	}
	n := 1 + vfChoice("nglyphs", max)
	b := vfBuffer(n)
	start := vfInt("start", 0, n)
	end := vfInt("end", 0, n)
	vfAssume(start <= end)
	before := append([]GlyphInfo(nil), b.Info...)
	b.unsafeToBreak(start, end)
	minC := 1 << 30
	for i := range before {
		inRange := vfAnd(start <= i, i < end)
		minC = vfIteInt(vfAnd(inRange, before[i].Cluster < minC), before[i].Cluster, minC)
	}
	flagged := false
	for i := range b.Info {
		inRange := vfAnd(start <= i, i < end)
		want := before[i].Mask
		hit := vfAnd(vfAnd(inRange, end-start >= 2), before[i].Cluster != minC)
		if hit {
			want |= GlyphUnsafeToBreak | GlyphUnsafeToConcat
			flagged = true
		}
		vfAssert(b.Info[i].Mask == want, "unsafeToBreak flags the wrong glyphs (must be: clusters of the range except the smallest one)")
	}
	if flagged {
		vfAssert(b.scratchFlags&bsfHasGlyphFlags != 0, "glyph flags set without recording bsfHasGlyphFlags (propagateFlags would be skipped)")
	}
	vfCover("flagged", flagged)
	vfReach("end")
}

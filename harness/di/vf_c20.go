//go:build verif

package di

import "github.com/go-text/typesetting/harfbuzz"

// H-C20-direction: all 256 Direction values x every setter: axis, progression and orientation
// are independent; SwitchAxis is an involution; Harfbuzz() agrees with axis and progression.
func VfH_C20_direction() {
	d := Direction(vfU8("d"))

	s := d.SwitchAxis()
	vfAssert(s.SwitchAxis() == d, "SwitchAxis is not an involution")
	vfAssert(s.IsVertical() != d.IsVertical(), "SwitchAxis does not switch the axis")
	vfAssert(s.Axis() != d.Axis(), "SwitchAxis does not switch Axis()")
	vfAssert(s.Progression() == d.Progression(), "SwitchAxis changes the progression")
	vfAssert(s.HasVerticalOrientation() == d.HasVerticalOrientation(), "SwitchAxis changes the orientation-set flag")
	vfAssert(s&^axisVertical == d&^axisVertical, "SwitchAxis changes bits other than the axis")

	p := Progression(vfBool("p"))
	e := d
	e.SetProgression(p)
	vfAssert(e.Progression() == p, "SetProgression does not set the progression")
	vfAssert(e.Axis() == d.Axis(), "SetProgression changes the axis")
	vfAssert(e.HasVerticalOrientation() == d.HasVerticalOrientation(), "SetProgression changes the orientation-set flag")
	vfAssert(e.IsSideways() == d.IsSideways(), "SetProgression changes the orientation")
	vfAssert(e&^progression == d&^progression, "SetProgression changes bits other than the progression")

	sw := vfBool("sideways")
	f := d
	f.SetSideways(sw)
	vfAssert(f.IsVertical(), "SetSideways does not make the direction vertical")
	vfAssert(f.HasVerticalOrientation(), "SetSideways does not mark the orientation as set")
	vfAssert(f.IsSideways() == sw, "SetSideways does not set the orientation")
	vfAssert(f.Progression() == d.Progression(), "SetSideways changes the progression")

	hb := d.Harfbuzz()
	vert := hb == harfbuzz.TopToBottom || hb == harfbuzz.BottomToTop
	back := hb == harfbuzz.RightToLeft || hb == harfbuzz.BottomToTop
	vfAssert(hb == harfbuzz.LeftToRight || hb == harfbuzz.RightToLeft || vert, "Harfbuzz() returns an invalid direction")
	vfAssert(vert == d.IsVertical(), "Harfbuzz() axis differs from IsVertical")
	vfAssert(back == (d.Progression() == TowardTopLeft), "Harfbuzz() progression differs from Progression()")
	vfAssert(d.IsSideways() == (d.IsVertical() && d&verticalSideways != 0), "IsSideways")
	vfReach("end")
}

//go:build verif

package unicodedata

import "unicode"

// vfIn is the reference membership test: a plain, branch-free scan over every range of the table.
func vfIn(t *unicode.RangeTable, r rune) bool {
	found := false
	u := uint32(r)
	for _, rg := range t.R16 {
		in := vfAnd(vfAnd(uint32(rg.Lo) <= u, u <= uint32(rg.Hi)), (u-uint32(rg.Lo))%uint32(rg.Stride) == 0)
		found = vfOr(found, in)
	}
	for _, rg := range t.R32 {
		in := vfAnd(vfAnd(rg.Lo <= u, u <= rg.Hi), (u-rg.Lo)%rg.Stride == 0)
		found = vfOr(found, in)
	}
	return found
}

// vfCheckLookup: got must be the FIRST table of the family (in table order) that contains r
// according to the reference scan, or the default when none does. Together with the pairwise
// disjointness harness this is "exactly one value, equal to a linear scan".
func vfCheckLookup(family []*unicode.RangeTable, got, def *unicode.RangeTable, r rune) {
	found := false
	for _, t := range family {
		if t == nil {
			continue
		}
		if t == got {
			if got != def {
				vfAssert(vfIn(t, r), "lookup returned a table that does not contain the rune")
			}
			found = true
			break
		}
		vfAssert(!vfIn(t, r), "lookup skipped an earlier table that contains the rune")
	}
	if !found {
		vfAssert(got == def, "lookup returned a value that is not a table of its family")
		vfReach("default")
	} else {
		vfReach("member")
	}
}

// vfDisjoint: no rune belongs to two tables of the family (row i against every later row).
func vfDisjoint(family []*unicode.RangeTable, i int, r rune) {
	ti := family[i]
	if ti == nil {
		return
	}
	ini := vfIn(ti, r)
	for j := i + 1; j < len(family); j++ {
		if family[j] == nil {
			continue
		}
		vfAssert(!vfAnd(ini, vfIn(family[j], r)), "two tables of the family share a rune")
	}
}

func VfH_C20_linebreak() {
	r := vfRune("r")
	got := LookupLineBreakClass(r)
	vfCheckLookup(lineBreaks[:], got, BreakXX, r)
	vfReach("end")
}

func VfH_C20_linebreak_disjoint() {
	i := vfChoice("row", len(lineBreaks))
	vfDisjoint(lineBreaks[:], i, vfRune("r"))
	vfReach("end")
}

func VfH_C20_grapheme() {
	r := vfRune("r")
	got := LookupGraphemeBreakClass(r)
	vfCheckLookup(graphemeBreaks[:], got, nil, r)
	vfReach("end")
}

func VfH_C20_grapheme_disjoint() {
	i := vfChoice("row", len(graphemeBreaks))
	vfDisjoint(graphemeBreaks[:], i, vfRune("r"))
	vfReach("end")
}

func VfH_C20_word() {
	r := vfRune("r")
	got := LookupWordBreakClass(r)
	vfCheckLookup(wordBreaks[:], got, nil, r)
	vfReach("end")
}

func VfH_C20_word_disjoint() {
	i := vfChoice("row", len(wordBreaks))
	vfDisjoint(wordBreaks[:], i, vfRune("r"))
	vfReach("end")
}

func VfH_C20_category() {
	r := vfRune("r")
	got := LookupType(r)
	vfCheckLookup(categories, got, nil, r)
	vfReach("end")
}

func VfH_C20_category_disjoint() {
	i := vfChoice("row", len(categories))
	vfDisjoint(categories, i, vfRune("r"))
	vfReach("end")
}

func VfH_C20_combining() {
	r := vfRune("r")
	got := LookupCombiningClass(r)
	in0 := false
	if t0 := combiningClasses[0]; t0 != nil {
		in0 = vfIn(t0, r)
	}
	for i, t := range combiningClasses {
		if t == nil {
			continue
		}
		if uint8(i) == got {
			if got != 0 {
				vfAssert(vfIn(t, r), "combining class table does not contain the rune")
			}
			if got != 0 {
				break
			}
			continue
		}
		if got == 0 {
			// default: either class 0 really contains the rune or no table does
			vfAssert(vfOr(in0, !vfIn(t, r)), "class 0 returned although another class contains the rune")
		} else {
			vfAssert(!vfIn(t, r), "an earlier combining class contains the rune")
		}
	}
	if got != 0 {
		vfAssert(combiningClasses[got] != nil, "LookupCombiningClass returned a class without table")
	}
	vfCover("member", got != 0)
	vfReach("end")
}

func VfH_C20_combining_disjoint() {
	i := vfChoice("row", len(combiningClasses))
	vfDisjoint(combiningClasses[:], i, vfRune("r"))
	vfReach("end")
}

// H-C20-mirror: mirroring is an involution on its domain, identity (false) elsewhere.
func VfH_C20_mirror() {
	r := vfRune("r")
	m, ok := LookupMirrorChar(r)
	if !ok {
		vfAssert(m == r, "non-mirrored rune is not returned unchanged")
	} else {
		m2, ok2 := LookupMirrorChar(m)
		vfAssert(ok2, "mirror image is not itself mirrored")
		vfAssert(m2 == r, "mirroring is not an involution")
	}
	vfCover("mirrored", ok)
	vfReach("end")
}

// H-C20-hangul: algorithmic Hangul decomposition and composition are mutually inverse for all runes.
func VfH_C20_hangul_dc() {
	ab := vfRune("ab")
	a, b, ok := decomposeHangul(ab)
	if ok {
		c, ok2 := composeHangul(a, b)
		vfAssert(ok2 && c == ab, "composeHangul(decomposeHangul(x)) != x")
	}
	vfCover("decomposes", ok)
	vfReach("end")
}

func VfH_C20_hangul_cd() {
	a, b := vfRune("a"), vfRune("b")
	ab, ok := composeHangul(a, b)
	if ok {
		a2, b2, ok2 := decomposeHangul(ab)
		vfAssert(ok2 && a2 == a && b2 == b, "decomposeHangul(composeHangul(a,b)) != (a,b)")
	}
	vfCover("composes", ok)
	vfReach("end")
}

// H-C20-decomp: Compose(a,b)=c => Decompose(c)=(a,b);  Decompose(c)=(a,b), b!=0, c not excluded => Compose(a,b)=c.
func VfH_C20_compose_then_decompose() {
	a, b := vfRune("a"), vfRune("b")
	c, ok := Compose(a, b)
	if ok {
		a2, b2, ok2 := Decompose(c)
		vfAssert(ok2 && a2 == a && b2 == b, "Decompose(Compose(a,b)) != (a,b)")
	}
	vfCover("composes", ok)
	vfReach("end")
}

func VfH_C20_decompose_then_compose() {
	c := vfRune("c")
	a, b, ok := Decompose(c)
	if !ok {
		vfAssert(a == c && b == 0, "failed Decompose does not return its input")
	}
	excluded := false
	for _, x := range vfCompositionExclusions {
		if x == c {
			excluded = true
		}
	}
	if ok && b != 0 && !excluded {
		c2, ok2 := Compose(a, b)
		vfAssert(ok2 && c2 == c, "Compose(Decompose(c)) != c outside the composition exclusions")
	}
	vfCover("pair", ok && b != 0 && !excluded)
	vfCover("excluded", ok && b != 0 && excluded)
	vfReach("end")
}

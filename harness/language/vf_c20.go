//go:build verif

package language

// H-C20-newlanguage: canonicalization is idempotent for every byte string up to the bound
// (invalid UTF-8 included) and its output only contains [a-z0-9-].
func VfH_C20_newlanguage() {
	max := 4
	if vfThorough() {
		max = 6
	}
	n := vfChoice("len", max+1)
	s := string(vfBytes("s", n, n))
	l1 := NewLanguage(s)
	l2 := NewLanguage(string(l1))
	vfAssert(l1 == l2, "NewLanguage is not idempotent")
	vfAssert(len(l1) <= len(s), "NewLanguage output longer than its input")
	for i := 0; i < len(l1); i++ {
		c := l1[i]
		ok := vfOr(vfOr(vfAnd('a' <= c, c <= 'z'), vfAnd('0' <= c, c <= '9')), c == '-')
		vfAssert(ok, "NewLanguage output contains a character outside [a-z0-9-]")
	}
	vfCover("nonempty", len(l1) > 0)
	vfCover("dropped", len(l1) < len(s))
	vfReach("end")
}

func vfTag(name string, maxLen int) Language {
	n := vfChoice(name+"len", maxLen+1)
	b := vfBytes(name, n, n)
	for i := range b {
		vfAssume(vfOr(vfAnd('a' <= b[i], b[i] <= 'c'), b[i] == '-')) // small alphabet incl. the separator
	}
	return Language(string(b))
}

// H-C20-langsearch: binarySearchLang on EVERY sorted table of <= 3 records (tags <= 2 bytes over
// {a,b,c,-}) and every key of <= 3 bytes: exact hit returns that index; otherwise the primary tag's
// index; otherwise a miss. The generated table is an instance once it is sorted (H-C20-langtable).
func VfH_C20_langsearch() {
	nrec := vfChoice("nrec", 4)
	recs := make([]languageInfo, nrec)
	for i := range recs {
		recs[i].lang = vfTag("rec", 2)
		if i > 0 {
			vfAssume(recs[i-1].lang < recs[i].lang)
		}
	}
	key := vfTag("key", 3)
	idx, ok := binarySearchLang(key, recs)

	exact, prim := -1, -1
	root := key.Primary()
	for i := range recs {
		if recs[i].lang == key {
			exact = i
		}
		if recs[i].lang == root {
			prim = i
		}
	}
	if exact >= 0 {
		vfAssert(ok && idx == exact, "exact match not found")
	} else if prim >= 0 {
		vfAssert(ok && idx == prim, "primary-tag fallback not found")
	} else {
		vfAssert(!ok, "match reported for an unknown language")
	}
	vfCover("exact", exact >= 0)
	vfCover("primary", exact < 0 && prim >= 0)
	vfCover("miss", exact < 0 && prim < 0)
	vfReach("end")
}

// H-C20-langtable: the two segments of the generated table are strictly sorted (the precondition
// of the search), and every known LangID round-trips through its tag.
func VfH_C20_langtable() {
	for i := 2; i < int(knownLangsCount); i++ {
		vfAssert(languagesInfos[i-1].lang < languagesInfos[i].lang, "known-language segment not sorted")
	}
	for i := int(knownLangsCount) + 1; i < len(languagesInfos); i++ {
		vfAssert(languagesInfos[i-1].lang < languagesInfos[i].lang, "second segment not sorted")
	}
	id := LangID(vfInt("id", 1, len(languagesInfos)-1))
	id = LangID(vfConcreteN(int(id)))
	l := id.Language()
	back, ok := NewLangID(l)
	vfAssert(ok && back == id, "LangID does not round-trip through its tag")
	vfAssert(NewLanguage(string(l)) == l, "table tag is not canonical")
	vfReach("end")
}

// H-C20-script: LookupScript (bisection) equals a linear scan of ScriptRanges for every rune;
// the bisection precondition (sorted, disjoint, Start <= End) is asserted on the table constants.
func VfH_C20_script() {
	for i := range ScriptRanges {
		vfAssert(ScriptRanges[i].Start <= ScriptRanges[i].End, "script range with Start > End")
		if i > 0 {
			vfAssert(ScriptRanges[i-1].End < ScriptRanges[i].Start, "script ranges not sorted / overlapping")
		}
	}
	r := vfRune("r")
	got := LookupScript(r)
	want := uint32(Unknown)
	for _, e := range ScriptRanges {
		want = vfIteU32(vfAnd(e.Start <= r, r <= e.End), uint32(e.Script), want)
	}
	vfAssert(uint32(got) == want, "LookupScript differs from a linear scan of ScriptRanges")
	vfCover("known", got != Unknown)
	vfCover("unknown", got == Unknown)
	vfReach("end")
}

//go:build verif

package fontscan

import "github.com/go-text/typesetting/font"

var vfStretchGrid = [...]font.Stretch{0.5, 0.625, 0.75, 0.875, 1.0, 1.125, 1.25, 1.5, 2.0}

// weights 100..950 step 50 (includes 350, 450, 950)
var vfWeightGrid = [...]font.Weight{100, 150, 200, 250, 300, 350, 400, 450, 500, 550, 600, 650, 700, 750, 800, 850, 900, 950}

// vfQuery draws the request by case split (every request is its own solver case, so that the
// float32 distance arithmetic of the implementation folds over the symbolic candidates).
func vfQuery() font.Aspect {
	var a font.Aspect
	si := vfChoice("qstretch", len(vfStretchGrid)+1) // == len: unset (0)
	st := vfChoice("qstyle", 3)
	wi := vfChoice("qweight", len(vfWeightGrid)+1)
	if si < len(vfStretchGrid) {
		a.Stretch = vfStretchGrid[si]
	}
	if wi < len(vfWeightGrid) {
		a.Weight = vfWeightGrid[wi]
	}
	a.Style = font.Style(st)
	return a
}

func vfAspect(allowUnset bool) font.Aspect {
	var a font.Aspect
	si := vfInt("stretch", 0, len(vfStretchGrid)) // == len: unset (0), only for queries
	wi := vfInt("weight", 0, len(vfWeightGrid))
	st := vfInt("style", 0, 2)
	if !allowUnset {
		vfAssume(si < len(vfStretchGrid))
		vfAssume(wi < len(vfWeightGrid))
		vfAssume(st >= 1)
	}
	if si < len(vfStretchGrid) {
		a.Stretch = vfStretchGrid[si]
	}
	if wi < len(vfWeightGrid) {
		a.Weight = vfWeightGrid[wi]
	}
	a.Style = font.Style(st)
	return a
}

// The reference is written branch-free (vfAnd/vfOr/vfIte build one term instead of forking).
// on[i] tells whether candidate i is still in the running.

// CSS Fonts 3 §5.2 step 1: exact; else if the request is <= normal the nearest narrower then the
// nearest wider; otherwise the nearest wider then the nearest narrower.
func vfRefStretch(c []font.Aspect, on []bool, q float32) float32 {
	var nar, wid float32
	hasN, hasW, exact := false, false, false
	for i := range c {
		v := float32(c[i].Stretch)
		exact = vfOr(exact, vfAnd(on[i], v == q))
		isN, isW := vfAnd(on[i], v < q), vfAnd(on[i], v > q)
		nar = vfIteF32(vfAnd(isN, vfOr(!hasN, v > nar)), v, nar)
		wid = vfIteF32(vfAnd(isW, vfOr(!hasW, v < wid)), v, wid)
		hasN, hasW = vfOr(hasN, isN), vfOr(hasW, isW)
	}
	narrowFirst := vfIteF32(hasN, nar, wid)
	wideFirst := vfIteF32(hasW, wid, nar)
	return vfIteF32(exact, q, vfIteF32(q <= float32(font.StretchNormal), narrowFirst, wideFirst))
}

// step 2: the requested style if present, else the other one (oblique and italic are one value here).
func vfRefStyle(c []font.Aspect, on []bool, q font.Style) font.Style {
	hasQ := false
	for i := range c {
		hasQ = vfOr(hasQ, vfAnd(on[i], c[i].Style == q))
	}
	other := font.StyleNormal
	if q == font.StyleNormal {
		other = font.StyleItalic
	}
	return font.Style(vfIteInt(hasQ, int(q), int(other)))
}

// step 3: 400..500: ascending up to 500, then descending below the request, then ascending above 500;
// < 400: descending below then ascending above; > 500: ascending above then descending below.
func vfRefWeight(c []font.Aspect, on []bool, q float32) float32 {
	var below, above, mid float32 // nearest below; nearest above; nearest above that is <= 500
	hasB, hasA, hasM, exact := false, false, false, false
	for i := range c {
		w := float32(c[i].Weight)
		exact = vfOr(exact, vfAnd(on[i], w == q))
		isB, isA := vfAnd(on[i], w < q), vfAnd(on[i], w > q)
		isM := vfAnd(isA, w <= 500)
		below = vfIteF32(vfAnd(isB, vfOr(!hasB, w > below)), w, below)
		above = vfIteF32(vfAnd(isA, vfOr(!hasA, w < above)), w, above)
		mid = vfIteF32(vfAnd(isM, vfOr(!hasM, w < mid)), w, mid)
		hasB, hasA, hasM = vfOr(hasB, isB), vfOr(hasA, isA), vfOr(hasM, isM)
	}
	belowFirst := vfIteF32(hasB, below, above)
	aboveFirst := vfIteF32(hasA, above, below)
	var r float32
	if 400 <= q && q <= 500 {
		r = vfIteF32(hasM, mid, belowFirst)
	} else if q < 400 {
		r = belowFirst
	} else {
		r = aboveFirst
	}
	return vfIteF32(exact, q, r)
}

// H-C15-css: real retainsBestMatches against the CSS reference for every candidate multiset of the
// bounded size over the grid and every request over the grid plus unset fields.
func VfH_C15_css() {
	max := 2
	if vfThorough() {
		max = 3
	}
	q := vfQuery()
	n := 1 + vfChoice("ncand", max)
	fs := make(fontSet, n)
	asp := make([]font.Aspect, n)
	cands := make([]int, n)
	on := make([]bool, n)
	for i := range fs {
		asp[i] = vfAspect(false)
		fs[i].Aspect = asp[i]
		cands[i] = i
		on[i] = true
	}

	got := fs.retainsBestMatches(cands, q) // real code

	rq := q
	if rq.Style == 0 {
		rq.Style = font.StyleNormal
	}
	if rq.Stretch == 0 {
		rq.Stretch = font.StretchNormal
	}
	if rq.Weight == 0 {
		rq.Weight = font.WeightNormal
	}
	s := vfRefStretch(asp, on, float32(rq.Stretch))
	for i := range on {
		on[i] = vfAnd(on[i], float32(asp[i].Stretch) == s)
	}
	st := vfRefStyle(asp, on, rq.Style)
	for i := range on {
		on[i] = vfAnd(on[i], asp[i].Style == st)
	}
	w := vfRefWeight(asp, on, float32(rq.Weight))
	count := 0
	for i := range on {
		on[i] = vfAnd(on[i], float32(asp[i].Weight) == w)
		count += vfIteInt(on[i], 1, 0)
	}

	// got must be exactly the candidates carrying the reference triple, in their original order:
	// same count, strictly increasing indices, every member carries the triple.
	vfAssert(len(got) > 0, "retainsBestMatches returned no candidate")
	vfAssert(count > 0, "reference is empty (oracle bug)")
	vfAssert(len(got) == count, "retained set differs from the CSS reference (size)")
	for k := range got {
		vfAssert(got[k] >= 0 && got[k] < n, "retained index out of range")
		if k > 0 {
			vfAssert(got[k-1] < got[k], "retained candidates reordered or duplicated")
		}
		a := asp[got[k]]
		vfAssert(vfAnd(vfAnd(float32(a.Stretch) == s, a.Style == st), float32(a.Weight) == w), "retained candidate does not carry the CSS-preferred stretch/style/weight")
	}
	vfCover("inexact", vfOr(vfOr(s != float32(rq.Stretch), w != float32(rq.Weight)), st != rq.Style))
	vfReach("end")
}

//go:build verif

package fontscan

import (
	"math"

	"github.com/go-text/typesetting/font"
	"github.com/go-text/typesetting/language"
)

func vfArbitrary(name string, max int) []byte {
	n := vfInt(name+"Len", 0, max)
	return vfBytes(name, n, max)
}

// H-C16-total-*: every deserializer is total on arbitrary bytes (any truncation or corruption of a
// cache file is such a byte string): no panic, and it never claims to have read more than it was given.
func VfH_C16_total_string() {
	data := vfArbitrary("data", 8)
	var s string
	n, err := deserializeString(&s, data)
	if err == nil {
		vfAssert(n <= len(data) && n == 2+len(s), "deserializeString read count inconsistent")
		back := serializeString(s)
		vfAssert(len(back) == n, "re-serialized string has a different size")
	}
	vfCover("ok", err == nil)
	vfCover("err", err != nil)
	vfReach("end")
}

func VfH_C16_total_sets() {
	data := vfArbitrary("data", 40)
	var ss ScriptSet
	n, err := ss.deserializeFrom(data)
	if err == nil {
		vfAssert(n <= len(data) && n == 1+4*len(ss), "ScriptSet.deserializeFrom read count inconsistent")
	}
	var rs RuneSet
	n2, err2 := rs.deserializeFrom(data)
	if err2 == nil {
		vfAssert(n2 <= len(data) && n2 == 2+runePageSize*len(rs), "RuneSet.deserializeFrom read count inconsistent")
	}
	var as font.Aspect
	n3, err3 := deserializeAspectFrom(data, &as)
	if err3 == nil {
		vfAssert(n3 == aspectSize && n3 <= len(data), "deserializeAspectFrom read count inconsistent")
	}
	vfCover("runeset-ok", err2 == nil && len(rs) == 1)
	vfReach("end")
}

func VfH_C16_total_footprint() {
	max := 14
	if vfThorough() {
		max = 20
	}
	data := vfArbitrary("data", max)
	var fp Footprint
	n, err := fp.deserializeFrom(data)
	if err == nil {
		vfAssert(n <= len(data), "Footprint.deserializeFrom reads beyond its input")
	}
	vfCover("err", err != nil)
	vfReach("end")
}

// H-C16-total-footprint-deep: arbitrary content and arbitrary truncation point, with the four
// structure-determining count fields case-split over small values (so that offsets are concrete):
// reaches every stage of the footprint parser, which 14 arbitrary bytes cannot.
func VfH_C16_total_footprint_deep() {
	l1, l2 := vfChoice("fileLen", 3), vfChoice("familyLen", 3)
	pages, scripts := vfChoice("npages", 2), vfChoice("nscripts", 3)
	full := 2 + l1 + 4 + 2 + l2 + 2 + runePageSize*pages + 1 + scriptSize*scripts + langSetSize + aspectSize
	n := vfInt("truncatedLen", 0, full+2)
	all := vfBytesCap("data", n, full+2, full+2)[:full+2]
	data := all[:n:n]
	o := 0
	vfAssume(all[o] == 0 && all[o+1] == byte(l1))
	o += 2 + l1 + 4
	vfAssume(all[o] == 0 && all[o+1] == byte(l2))
	o += 2 + l2
	vfAssume(all[o] == 0 && all[o+1] == byte(pages))
	o += 2 + runePageSize*pages
	vfAssume(all[o] == byte(scripts))
	var fp Footprint
	read, err := fp.deserializeFrom(data)
	if err == nil {
		vfAssert(read <= len(data), "Footprint.deserializeFrom reads beyond its input")
		vfAssert(read == full, "accepted footprint has an unexpected size")
		back := fp.serializeTo(nil)
		vfAssert(len(back) == read, "accepted footprint re-serializes to a different size")
		for i := range back {
			vfAssert(back[i] == data[i], "accepted footprint re-serializes to different bytes")
		}
	} else {
		vfAssert(n < full, "complete well-formed footprint rejected")
	}
	vfCover("ok", err == nil)
	vfCover("truncated", err != nil)
	vfReach("end")
}

func VfH_C16_total_file() {
	max := 24
	if vfThorough() {
		max = 48
	}
	data := vfArbitrary("data", max)
	var ff fileFootprints
	err := ff.deserializeFrom(data)
	if err == nil {
		ff.serializeTo(nil) // a well-formed value: re-serialising must not panic either
	}
	vfCover("ok", err == nil)
	vfCover("err", err != nil)
	vfReach("end")
}

func vfString(name string, max int) string {
	n := vfChoice(name+"Len", max+1)
	return string(vfBytes(name, n, n))
}

func vfFootprint() Footprint { return vfFootprintN(2, 2) }

func vfFootprintN(maxStr, maxScripts int) Footprint {
	var fp Footprint
	fp.Location.File = vfString("file", maxStr)
	fp.Location.Index = vfU16("index")
	fp.Location.Instance = vfU16("instance")
	fp.Family = vfString("family", maxStr)
	fp.Runes = vfRuneSet("fp", vfChoice("npages", 2))
	ns := vfChoice("nscripts", maxScripts+1)
	fp.Scripts = make(ScriptSet, ns)
	for i := range fp.Scripts {
		fp.Scripts[i] = language.Script(vfU32("script"))
	}
	for i := range fp.Langs {
		fp.Langs[i] = vfU64("langs")
	}
	fp.Aspect = font.Aspect{Style: font.Style(vfU8("style")), Weight: font.Weight(math.Float32frombits(vfU32("weight"))), Stretch: font.Stretch(math.Float32frombits(vfU32("stretch")))}
	return fp
}

func vfSameFootprint(a, b Footprint, what string) {
	vfAssert(a.Location.File == b.Location.File && a.Location.Index == b.Location.Index && a.Location.Instance == b.Location.Instance, what+": location differs")
	vfAssert(a.Family == b.Family, what+": family differs")
	vfAssert(len(a.Runes) == len(b.Runes), what+": rune set differs")
	for i := range a.Runes {
		vfAssert(a.Runes[i] == b.Runes[i], what+": rune set differs")
	}
	vfAssert(len(a.Scripts) == len(b.Scripts), what+": script set differs")
	for i := range a.Scripts {
		vfAssert(a.Scripts[i] == b.Scripts[i], what+": script set differs")
	}
	vfAssert(a.Langs == b.Langs, what+": lang set differs")
	vfAssert(a.Aspect.Style == b.Aspect.Style && math.Float32bits(float32(a.Aspect.Weight)) == math.Float32bits(float32(b.Aspect.Weight)) &&
		math.Float32bits(float32(a.Aspect.Stretch)) == math.Float32bits(float32(b.Aspect.Stretch)), what+": aspect differs (bit pattern)")
}

// H-C16-roundtrip-footprint: a footprint with symbolic content reads back identical, consuming exactly what was written.
func VfH_C16_roundtrip_footprint() {
	fp := vfFootprint()
	prefix := vfBytes("prefix", 1, 1) // serializeTo appends: the existing content must be kept
	buf := fp.serializeTo(prefix)
	vfAssert(buf[0] == prefix[0], "serializeTo does not append")
	var back Footprint
	n, err := back.deserializeFrom(buf[1:])
	vfAssert(err == nil, "serialized footprint is rejected")
	vfAssert(n == len(buf)-1, "deserializeFrom does not consume what serializeTo wrote")
	vfSameFootprint(fp, back, "footprint round trip")
	vfReach("end")
}

// H-C16-roundtrip-file: a file entry with 0..2 footprints reads back identical.
func VfH_C16_roundtrip_file() {
	nf := vfChoice("nfootprints", 3)
	ff := fileFootprints{path: vfString("path", 2), modTime: timeStamp(vfI64("modTime"))}
	for i := 0; i < nf; i++ {
		ff.footprints = append(ff.footprints, vfFootprintN(1, 1))
	}
	buf := ff.serializeTo(nil)
	var back fileFootprints
	err := back.deserializeFrom(buf)
	vfAssert(err == nil, "serialized file entry is rejected")
	vfAssert(back.path == ff.path && back.modTime == ff.modTime, "file entry round trip: path or time differs")
	vfAssert(len(back.footprints) == nf, "file entry round trip: footprint count differs")
	for i := range back.footprints {
		vfSameFootprint(ff.footprints[i], back.footprints[i], "file entry round trip")
	}
	vfReach("end")
}

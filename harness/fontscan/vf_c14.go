//go:build verif

package fontscan

import (
	"github.com/go-text/typesetting/font"
	"github.com/go-text/typesetting/language"
)

// ---- C14: ResolveFace is total, cache-transparent and follows the documented priority ----
//
// Candidate construction (family substitution over the 4k-line table) is stubbed: for every
// (query, script) pair the three candidate lists are ARBITRARY index lists into the database, drawn
// once and kept in a table, so that they are a function of the current query and script only.

const (
	vfNDB      = 2 // footprints in the database
	vfNQueries = 2
	vfNScripts = 2
)

// two family lists with the SAME concatenation and aspect: only the element-wise comparison in the rune cache tells them apart
var vfQueries = [vfNQueries]Query{{Families: []string{"ab", "c"}}, {Families: []string{"a", "bc"}}}
var vfScripts = [vfNScripts]language.Script{language.Latin, language.Arabic}

// one optional entry per list, drawn symbolically up front and made concrete only where a history uses it
type vfCandSlot struct {
	present bool
	idx     int
}

var vfCandSlots [vfNQueries][vfNScripts][3]vfCandSlot

func vfCandList(q, s, k int) []int {
	sl := vfCandSlots[q][s][k]
	if !sl.present {
		return nil
	}
	return []int{vfConcrete(sl.idx)}
}

func vfQueryIndex(q Query) int {
	for i := range vfQueries {
		if len(q.Families) == len(vfQueries[i].Families) && q.Families[0] == vfQueries[i].Families[0] {
			return i
		}
	}
	return 0
}

func vfScriptIndex(s language.Script) int {
	for i := range vfScripts {
		if s == vfScripts[i] {
			return i
		}
	}
	return 0
}

func vfNewFontMap(cacheSize int) (*FontMap, [vfNDB]*font.Face) {
	fm := NewFontMap(nil)
	fm.SetRuneCacheSize(cacheSize)
	var faces [vfNDB]*font.Face
	for i := 0; i < vfNDB; i++ {
		faces[i] = &font.Face{Font: &font.Font{}}
		fp := Footprint{Location: Location{File: string(rune('f' + i))}, isUserProvided: i == vfNDB-1}
		// one page (ref 0) with symbolic bits: runes 0..255
		fp.Runes = RuneSet{{ref: 0}}
		for j := range fp.Runes[0].set {
			fp.Runes[0].set[j] = vfU32("coverage")
		}
		// footprint i either covers script i or declares no script
		if vfChoice("hasScript", 2) == 1 {
			fp.Scripts = ScriptSet{vfScripts[i%vfNScripts]}
		}
		fm.cache(fp, faces[i])
		fm.appendFootprints(fp)
	}
	VfHook_FontMap_buildCandidates = func(m *FontMap) {
		if m.built {
			return
		}
		q, s := vfQueryIndex(m.query), vfScriptIndex(m.script)
		m.candidates.withoutFallback = append(m.candidates.withoutFallback[:0], vfCandList(q, s, 0)...)
		m.candidates.withFallback = append(m.candidates.withFallback[:0], vfCandList(q, s, 1)...)
		m.candidates.manual = append(m.candidates.manual[:0], vfCandList(q, s, 2)...)
		m.built = true
	}
	return fm, faces
}

// reference: the first footprint, in the documented order, whose coverage contains r; else the arbitrary-face rule
func vfRefResolve(fm *FontMap, faces [vfNDB]*font.Face, q Query, s language.Script, r rune) *font.Face {
	qi, si := vfQueryIndex(q), vfScriptIndex(s)
	for _, list := range [][]int{vfCandList(qi, si, 0), vfCandList(qi, si, 1), vfCandList(qi, si, 2), fm.scriptMap[s]} {
		for _, idx := range list {
			if fm.database[idx].Runes.Contains(r) {
				return faces[idx]
			}
		}
	}
	return faces[0] // first face cached = arbitrary face
}

// H-C14-resolve: histories of SetQuery / SetScript / ResolveFace on one FontMap with every rune-cache
// size: the answer equals the uncached reference computed from the CURRENT query, script and rune only.
func VfH_C14_resolve() {
	sizes := [...]int{0, 1, 4096, 2}
	nsizes := 3
	if vfThorough() {
		nsizes = 4
	}
	fm, faces := vfNewFontMap(sizes[vfChoice("cacheSize", nsizes)])
	maxRune := 1
	for q := 0; q < vfNQueries; q++ {
		for s := 0; s < vfNScripts; s++ {
			for k := 0; k < 3; k++ {
				vfCandSlots[q][s][k] = vfCandSlot{present: vfBool("candPresent"), idx: vfInt("cand", 0, vfNDB-1)}
			}
			if !vfThorough() {
				vfCandSlots[q][s][1].present = false // quick tier: the fallback list stays empty
			}
		}
	}
	steps := 2 // three steps with all candidate lists exceed 20 minutes per case
	curQ, curS := Query{Families: []string{""}}, language.Script(0)
	_ = curQ
	fm.SetQuery(vfQueries[0])
	fm.SetScript(vfScripts[0])
	curQ, curS = vfQueries[0], vfScripts[0]
	for i := 0; i < steps; i++ {
		op := 2 // quick tier: the history starts with a lookup (which fills the caches)
		if i > 0 || vfThorough() {
			op = vfChoice("op", 3)
		}
		switch op {
		case 0:
			qi := vfChoice("query", vfNQueries)
			fm.SetQuery(vfQueries[qi])
			curQ = vfQueries[qi]
		case 1:
			si := vfChoice("script", vfNScripts)
			fm.SetScript(vfScripts[si])
			curS = vfScripts[si]
		case 2:
			r := rune(vfConcrete(vfInt("rune", 0, maxRune))) // small rune domain, concrete per path (it is part of the cache key)
			got := fm.ResolveFace(r)
			vfAssert(got != nil, "ResolveFace returned nil although the map holds fonts")
			want := vfRefResolve(fm, faces, curQ, curS, r)
			vfAssert(got == want, "ResolveFace differs from the uncached reference for the current query/script/rune (stale cache or wrong priority)")
		}
	}
	r := rune(vfConcrete(vfInt("finalRune", 0, maxRune)))
	got := fm.ResolveFace(r)
	vfAssert(got != nil, "ResolveFace returned nil although the map holds fonts")
	vfAssert(got == vfRefResolve(fm, faces, curQ, curS, r), "ResolveFace differs from the uncached reference for the current query/script/rune (stale cache or wrong priority)")
	vfReach("end")
}

// ---- H-C14-addface: the real candidate construction and AddFace ----
//
// No candidate stub here: buildCandidates, selectByFamilyExact/WithSubs (the real substitution table),
// retainsBestMatches and filterUserProvided run from source, on a database grown by AddFace during the
// history. The oracle is a fresh FontMap that receives the same faces in the same order and the current
// query and script only. Faces carry a tiny cmap (a subset of {A, B}) and a family among {a, b}.

type vfCmap []rune

type vfCmapIter struct {
	runes []rune
	pos   int
}

func (it *vfCmapIter) Next() bool { it.pos++; return it.pos <= len(it.runes) }

func (it *vfCmapIter) Char() (rune, font.GID) { return it.runes[it.pos-1], font.GID(it.pos) }

func (c vfCmap) Iter() font.CmapIter { return &vfCmapIter{runes: c} }

func (c vfCmap) Lookup(r rune) (font.GID, bool) {
	for i, v := range c {
		if v == r {
			return font.GID(i + 1), true
		}
	}
	return 0, false
}

type vfAddedFace struct {
	face *font.Face
	loc  Location
	md   font.Description // accurate in the sense of AddFace: every aspect field is set
}

func vfNewAddedFace(i int) vfAddedFace {
	cmaps := [...]vfCmap{{'A'}, {'A', 'B'}, {}, {'B'}}
	fams := [...]string{"a", "b"}
	weights := [...]font.Weight{font.WeightNormal, font.WeightBold}
	ncmaps, nweights := 3, 1
	if vfThorough() {
		nweights = 2
	}
	return vfAddedFace{
		face:   &font.Face{Font: &font.Font{Cmap: cmaps[vfChoice("faceCmap", ncmaps)]}},
		loc:    Location{File: string(rune('f' + i))},
		md: font.Description{Family: fams[vfChoice("faceFamily", len(fams))],
			Aspect: font.Aspect{Style: font.StyleNormal, Weight: weights[vfChoice("faceWeight", nweights)], Stretch: font.StretchNormal}},
	}
}

func VfH_C14_addface() {
	VfHook_FontMap_buildCandidates = nil // the real candidate construction (a replay of H-C14-resolve in the same process may have installed its stub)
	VfHook_newLangsetFromCoverage = func(RuneSet) LangSet { return LangSet{} }
	queries := [...]Query{{Families: []string{"a"}}, {Families: []string{"b", "a"}}, {Families: []string{"b"}}, {Families: []string{"a", "b"}}}
	nqueries := 2
	if vfThorough() {
		nqueries = 4
	}
	scripts := [...]language.Script{language.Latin, language.Arabic}
	runes := [...]rune{'A', 'B'}

	used := NewFontMap(nil)
	if vfChoice("cache", 2) == 1 {
		used.SetRuneCacheSize(0)
	}
	var added []vfAddedFace
	add := func() {
		f := vfNewAddedFace(len(added))
		added = append(added, f)
		used.AddFace(f.face, f.loc, f.md)
	}
	add()
	curQ, curS := vfChoice("query0", nqueries), 0
	used.SetQuery(queries[curQ])
	used.SetScript(scripts[curS])

	check := func() {
		r := runes[vfChoice("rune", len(runes))]
		got := used.ResolveFace(r)
		fresh := NewFontMap(nil)
		for _, f := range added {
			fresh.AddFace(f.face, f.loc, f.md)
		}
		fresh.SetQuery(queries[curQ])
		fresh.SetScript(scripts[curS])
		want := fresh.ResolveFace(r)
		vfAssert(got != nil, "ResolveFace returned nil although the map holds fonts")
		vfAssert(got == want, "ResolveFace on a used map differs from a fresh map with the same fonts, query and script")
	}

	maxOps := 2 // three operations with the real candidate construction exceed the time budget
	nops := vfChoice("nops", maxOps+1)
	for i := 0; i < nops; i++ {
		switch vfChoice("op", 4) {
		case 0:
			if len(added) < 3 {
				add()
			}
		case 1:
			curQ = vfChoice("query", nqueries)
			used.SetQuery(queries[curQ])
		case 2:
			curS = vfChoice("script", len(scripts))
			used.SetScript(scripts[curS])
		case 3:
			check()
		}
	}
	check()
	vfCover("grown", len(added) > 1)
	vfReach("end")
}

//go:build verif

package fontscan

import "github.com/go-text/typesetting/language"

// vfRuneSet: arbitrary valid RuneSet: n pages, strictly increasing refs, symbolic bit contents
// (empty pages allowed: Delete leaves them behind).
func vfRuneSet(name string, n int) RuneSet {
	rs := make(RuneSet, n)
	for i := range rs {
		rs[i].ref = vfU16(name + "ref")
		if i > 0 {
			vfAssume(rs[i-1].ref < rs[i].ref)
		}
		for j := range rs[i].set {
			rs[i].set[j] = vfU32(name + "bits")
		}
	}
	return rs
}

// vfHas is the mathematical membership: some page has the rune's ref and the rune's bit set.
func vfHas(rs RuneSet, r rune) bool {
	in := false
	for i := range rs {
		word := rs[i].set[(r&0xff)>>5]
		in = vfOr(in, vfAnd(rs[i].ref == uint16(r>>8), word&(1<<uint(r&0x1f)) != 0))
	}
	return in
}

func vfSorted(rs RuneSet) bool {
	ok := true
	for i := 1; i < len(rs); i++ {
		ok = vfAnd(ok, rs[i-1].ref < rs[i].ref)
	}
	return ok
}

func vfValidRune(name string) rune {
	r := vfRune(name)
	vfAssume(r >= 0 && r <= 0x10FFFF)
	return r
}

func vfClone(rs RuneSet) RuneSet { return append(RuneSet(nil), rs...) }

// H-C11-runeset-ops: one step of Contains / Add / Delete from an arbitrary valid set, against the set semantics.
func VfH_C11_runeset_ops() {
	max := 2
	if vfThorough() {
		max = 3
	}
	n := vfChoice("npages", max+1)
	rs := vfRuneSet("a", n)
	r, q := vfValidRune("r"), vfValidRune("q")

	vfAssert(rs.Contains(q) == vfHas(rs, q), "Contains differs from set membership")

	before := vfClone(rs)
	switch vfChoice("op", 2) {
	case 0:
		rs.Add(r)
		vfAssert(vfSorted(rs), "Add breaks the page ordering invariant")
		vfAssert(rs.Contains(q) == vfOr(q == r, vfHas(before, q)), "after Add(r): membership is not old set + {r}")
		vfCover("newpage", len(rs) > n)
	case 1:
		rs.Delete(r)
		vfAssert(vfSorted(rs), "Delete breaks the page ordering invariant")
		vfAssert(rs.Contains(q) == vfAnd(q != r, vfHas(before, q)), "after Delete(r): membership is not old set - {r}")
	}
	vfReach("end")
}

// H-C11-runeset-includes: a.includes(b) iff every rune of b is in a, for arbitrary valid a, b
// (page-wise formulation of the quantifier: every non-empty page of b has a page of a with the same ref and a superset of its bits).
func VfH_C11_runeset_includes() {
	max := 2
	if vfThorough() {
		max = 3
	}
	na, nb := vfChoice("na", max+1), vfChoice("nb", max+1)
	a, b := vfRuneSet("a", na), vfRuneSet("b", nb)
	want := true
	for i := range b {
		empty := true
		for j := range b[i].set {
			empty = vfAnd(empty, b[i].set[j] == 0)
		}
		covered := false
		for k := range a {
			sup := true
			for j := range b[i].set {
				sup = vfAnd(sup, b[i].set[j]&^a[k].set[j] == 0)
			}
			covered = vfOr(covered, vfAnd(a[k].ref == b[i].ref, sup))
		}
		want = vfAnd(want, vfOr(empty, covered))
	}
	got := a.includes(b)
	vfAssert(got == want, "includes differs from the subset relation")
	vfCover("subset", want)
	vfCover("notsubset", !want)
	vfReach("end")
}

// H-C11-runeset-serialize: deserializeFrom(serialize(rs)) == rs and consumes exactly the bytes written.
func VfH_C11_runeset_serialize() {
	max := 2
	if vfThorough() {
		max = 3
	}
	n := vfChoice("npages", max+1)
	rs := vfRuneSet("a", n)
	buf := rs.serialize()
	var back RuneSet
	read, err := back.deserializeFrom(buf)
	vfAssert(err == nil, "deserializeFrom rejects serialize output")
	vfAssert(read == len(buf), "deserializeFrom does not consume what serialize wrote")
	vfAssert(len(back) == len(rs), "round trip changes the page count")
	for i := range rs {
		vfAssert(back[i] == rs[i], "round trip changes a page")
	}
	vfReach("end")
}

// H-C11-addrange: addRangeToPage(start <= end) sets exactly the bits start..end and keeps the others.
func VfH_C11_addrange() {
	var page pageSet
	for j := range page {
		page[j] = vfU32("bits")
	}
	before := page
	start, end := vfU8("start"), vfU8("end")
	vfAssume(start <= end)
	addRangeToPage(&page, start, end)
	b := vfU8("probe")
	was := before[b>>5]&(1<<uint(b&0x1f)) != 0
	is := page[b>>5]&(1<<uint(b&0x1f)) != 0
	vfAssert(is == vfOr(was, vfAnd(start <= b, b <= end)), "addRangeToPage does not set exactly the bits start..end")
	vfReach("end")
}

// vfScriptTable overwrites the exported language.ScriptRanges table (a fixed-size array) with the given
// leading entries and pushes every remaining entry beyond the code space, keeping it sorted. With nil the
// script pass of the coverage builder becomes trivial, so that a harness can address the rune set alone.
func vfScriptTable(head []language.ScriptRange) {
	for i := range language.ScriptRanges {
		if i < len(head) {
			language.ScriptRanges[i] = head[i]
		} else {
			language.ScriptRanges[i] = language.ScriptRange{Start: 0x7FFF0000 + rune(i), End: 0x7FFF0000 + rune(i), Script: language.Unknown}
		}
	}
}

type vfRanger struct{ ranges [][2]rune }

func (v vfRanger) RuneRanges(dst [][2]rune) [][2]rune { return append(dst[:0], v.ranges...) }

// H-C11-cmaprange: the coverage built from sorted disjoint rune ranges contains exactly the runes of the ranges.
func VfH_C11_cmaprange() {
	max := 2
	if vfThorough() {
		max = 3
	}
	n := vfChoice("nranges", max+1)
	ranges := make([][2]rune, n)
	for i := range ranges {
		start := vfValidRune("start")
		maxSize := 40 // crosses at most one page boundary
		if vfThorough() {
			maxSize = 0x240 // up to three pages
		}
		size := vfInt("size", 1, maxSize)
		end := start + rune(size) - 1
		vfAssume(end <= 0x10FFFF)
		if i > 0 {
			vfAssume(start > ranges[i-1][1])
		}
		ranges[i] = [2]rune{start, end}
	}
	vfScriptTable(nil)
	rs, _, _ := newCoveragesFromCmapRange(vfRanger{ranges}, nil)
	vfAssert(vfSorted(rs), "coverage pages not strictly increasing")
	q := vfValidRune("q")
	in := false
	for _, ra := range ranges {
		in = vfOr(in, vfAnd(ra[0] <= q, q <= ra[1]))
	}
	vfAssert(rs.Contains(q) == in, "coverage rune set differs from the cmap's rune ranges")
	vfCover("in", in)
	vfCover("out", !in)
	vfReach("end")
}

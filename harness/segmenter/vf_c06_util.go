//go:build verif

package segmenter

import (
	"unicode"

	ucd "github.com/go-text/typesetting/unicodedata"
)

type ucdTable = unicode.RangeTable

func vfIsPic(r rune) bool { return unicode.Is(ucd.Extended_Pictographic, r) }

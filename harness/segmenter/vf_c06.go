//go:build verif

package segmenter

import (
	"unicode"

	ucd "github.com/go-text/typesetting/unicodedata"
)

// A symbolic text: every position is an arbitrary representative of the class partition computed by
// repgen from the current tables (vfReps): together they stand for every code point sequence of the length.
func vfText(name string, n int) []rune {
	t := make([]rune, n)
	for i := range t {
		t[i] = vfReps[vfInt(name, 0, len(vfReps)-1)]
	}
	return t
}

// ---- H-C06-iter: iterators over an ARBITRARY attribute array with the structural guarantees of
// computeBreakAttributes ([0] is no line break, [n] carries every flag).
func VfH_C06_iter() {
	max := 4
	if vfThorough() {
		max = 6
	}
	n := 1 + vfChoice("textLen", max)
	seg := Segmenter{text: make([]rune, n), attributes: make([]breakAttr, n+1)}
	for i := range seg.text {
		seg.text[i] = 'a' + rune(i)
	}
	for i := range seg.attributes {
		seg.attributes[i] = breakAttr(vfU8("attr") & 0x0F)
	}
	seg.attributes[0] = seg.attributes[0]&^lineBoundary&^mandatoryLineBoundary | graphemeBoundary | wordBoundary
	seg.attributes[n] |= lineBoundary | mandatoryLineBoundary | graphemeBoundary | wordBoundary
	for i := range seg.attributes {
		vfAssume(vfImplies(seg.attributes[i]&mandatoryLineBoundary != 0, seg.attributes[i]&lineBoundary != 0))
	}

	next := 0
	for it := seg.LineIterator(); it.Next(); {
		l := it.Line()
		vfAssert(l.Offset == next && len(l.Text) > 0, "LineIterator: segments are not consecutive and non-empty")
		next = l.Offset + len(l.Text)
		vfAssert(next <= n, "LineIterator: segment beyond the text")
		vfAssert(seg.attributes[next]&lineBoundary != 0, "LineIterator: segment ends where no line break is allowed")
		for k := l.Offset + 1; k < next; k++ {
			vfAssert(seg.attributes[k]&lineBoundary == 0, "LineIterator: segment spans a line break opportunity")
		}
		vfAssert(l.IsMandatoryBreak == (seg.attributes[next]&mandatoryLineBoundary != 0), "LineIterator: IsMandatoryBreak does not mirror the attribute")
		vfAssert(&l.Text[0] == &seg.text[l.Offset], "LineIterator: Text is not the sub-slice of the input")
	}
	vfAssert(next == n, "LineIterator: segments do not cover the text")

	next = 0
	for it := seg.GraphemeIterator(); it.Next(); {
		g := it.Grapheme()
		vfAssert(g.Offset == next && len(g.Text) > 0, "GraphemeIterator: segments are not consecutive and non-empty")
		next = g.Offset + len(g.Text)
		vfAssert(next <= n && seg.attributes[next]&graphemeBoundary != 0, "GraphemeIterator: segment ends where no boundary is")
		for k := g.Offset + 1; k < next; k++ {
			vfAssert(seg.attributes[k]&graphemeBoundary == 0, "GraphemeIterator: segment spans a boundary")
		}
	}
	vfAssert(next == n, "GraphemeIterator: segments do not cover the text")

	prevEnd := 0
	for it := seg.WordIterator(); it.Next(); {
		w := it.Word()
		vfAssert(w.Offset >= prevEnd && len(w.Text) > 0 && w.Offset+len(w.Text) <= n, "WordIterator: words overlap, are empty or leave the text")
		prevEnd = w.Offset + len(w.Text)
	}
	vfReach("end")
}

// ---- reference for UAX #29 grapheme cluster boundaries (rules GB3..GB13, GB999), written as a
// multi-pass over class arrays, branch-free.
func vfGraphemeRef(text []rune) []bool {
	n := len(text)
	graphemeClass := make([]*ucdTable, n) // one table lookup per position
	pic := make([]bool, n)
	for i := range text {
		graphemeClass[i] = ucd.LookupGraphemeBreakClass(text[i])
		pic[i] = vfIsPic(text[i])
	}
	is := func(i int, c *ucdTable) bool { return graphemeClass[i] == c }
	out := make([]bool, n+1)
	out[0], out[n] = true, true
	// state for GB11 (ExtPict Extend* ZWJ x ExtPict) and GB12/13 (RI pairs), as prefix scans
	inPicExt := make([]bool, n) // text[..i] ends with ExtPict Extend*
	riOdd := make([]bool, n)    // number of consecutive RI ending at i is odd
	for i := 0; i < n; i++ {
		prevPicExt, prevOdd := false, false
		if i > 0 {
			prevPicExt, prevOdd = inPicExt[i-1], riOdd[i-1]
		}
		inPicExt[i] = vfOr(pic[i], vfAnd(prevPicExt, is(i, ucd.GraphemeBreakExtend)))
		riOdd[i] = vfAnd(is(i, ucd.GraphemeBreakRegional_Indicator), !prevOdd)
	}
	for i := 1; i < n; i++ {
		a, b := i-1, i
		ctl := func(k int) bool {
			return vfOr(vfOr(is(k, ucd.GraphemeBreakControl), is(k, ucd.GraphemeBreakCR)), is(k, ucd.GraphemeBreakLF))
		}
		gb3 := vfAnd(is(a, ucd.GraphemeBreakCR), is(b, ucd.GraphemeBreakLF))
		gb45 := vfOr(ctl(a), ctl(b))
		gb6 := vfAnd(is(a, ucd.GraphemeBreakL), vfOr(vfOr(is(b, ucd.GraphemeBreakL), is(b, ucd.GraphemeBreakV)), vfOr(is(b, ucd.GraphemeBreakLV), is(b, ucd.GraphemeBreakLVT))))
		gb7 := vfAnd(vfOr(is(a, ucd.GraphemeBreakLV), is(a, ucd.GraphemeBreakV)), vfOr(is(b, ucd.GraphemeBreakV), is(b, ucd.GraphemeBreakT)))
		gb8 := vfAnd(vfOr(is(a, ucd.GraphemeBreakLVT), is(a, ucd.GraphemeBreakT)), is(b, ucd.GraphemeBreakT))
		gb9 := vfOr(is(b, ucd.GraphemeBreakExtend), is(b, ucd.GraphemeBreakZWJ))
		gb9a := is(b, ucd.GraphemeBreakSpacingMark)
		gb9b := is(a, ucd.GraphemeBreakPrepend)
		beforeZWJ := false
		if a > 0 {
			beforeZWJ = inPicExt[a-1]
		}
		gb11 := vfAnd(vfAnd(is(a, ucd.GraphemeBreakZWJ), beforeZWJ), pic[b])
		gb1213 := vfAnd(riOdd[a], is(b, ucd.GraphemeBreakRegional_Indicator))
		noBreak := vfOr(vfOr(vfOr(gb6, gb7), vfOr(gb8, gb9)), vfOr(vfOr(gb9a, gb9b), vfOr(gb11, gb1213)))
		// GB3 first, then GB4/GB5 force a break, then the no-break rules, else GB999 break
		out[i] = vfAnd(!gb3, vfOr(gb45, !noBreak))
	}
	return out
}

// H-C06-grapheme: the real Segmenter.Init against the UAX #29 grapheme reference on every class sequence of the bounded length.
func VfH_C06_grapheme() {
	max := 2
	if vfThorough() {
		max = 3
	}
	n := 1 + vfChoice("textLen", max)
	text := vfText("rep", n)
	var seg Segmenter
	seg.Init(text)
	want := vfGraphemeRef(text)
	for i := 0; i <= n; i++ {
		vfAssert((seg.attributes[i]&graphemeBoundary != 0) == want[i], "grapheme boundary differs from UAX #29 (GB rules)")
	}
	vfCover("inner-nobreak", n >= 2 && !want[1])
	vfCover("inner-break", n >= 2 && want[1])
	vfReach("end")
}

// H-C06-mandatory: mandatory line breaks (LB4, LB5) and the structural rules LB2/LB3:
// a mandatory break before position i iff the previous rune is BK, LF, NL, or CR not followed by LF.
func VfH_C06_mandatory() {
	max := 2
	if vfThorough() {
		max = 3
	}
	n := 1 + vfChoice("textLen", max)
	text := vfText("rep", n)
	var seg Segmenter
	seg.Init(text)
	lb := func(i int, c *ucdTable) bool { return ucd.LookupLineBreakClass(text[i]) == c }
	vfAssert(seg.attributes[0]&lineBoundary == 0, "LB2: break allowed at the start of text")
	vfAssert(seg.attributes[n]&mandatoryLineBoundary != 0 && seg.attributes[n]&lineBoundary != 0, "LB3: no mandatory break at the end of text")
	for i := 1; i < n; i++ {
		want := vfOr(vfOr(lb(i-1, ucd.BreakBK), vfOr(lb(i-1, ucd.BreakLF), lb(i-1, ucd.BreakNL))), vfAnd(lb(i-1, ucd.BreakCR), !lb(i, ucd.BreakLF)))
		got := seg.attributes[i]&mandatoryLineBoundary != 0
		vfAssert(got == want, "mandatory line break differs from UAX #14 LB4/LB5")
		vfAssert(vfImplies(got, seg.attributes[i]&lineBoundary != 0), "mandatory break without line break opportunity")
		vfAssert(vfImplies(vfAnd(lb(i-1, ucd.BreakCR), lb(i, ucd.BreakLF)), seg.attributes[i]&lineBoundary == 0), "LB5: break inside CR LF")
	}
	vfCover("mandatory", n >= 2 && seg.attributes[1]&mandatoryLineBoundary != 0)
	vfReach("end")
}

// H-C06-reuse (also C13): Init(t1); Init(t2) on one Segmenter equals a fresh Init(t2).
func VfH_C06_reuse() { vfReuse(1, 1) }

// H-C13-seg: the same comparison at the smaller bound used by the C13 check
func VfH_C13_seg() { vfReuse(1, 1) }

func vfReuse(max1, max2 int) {
	if vfThorough() {
		max1, max2 = 2, 2
	}
	n1, n2 := vfChoice("len1", max1+1), vfChoice("len2", max2+1)
	t1, t2 := vfText("rep1", n1), vfText("rep2", n2)
	var used, fresh Segmenter
	used.Init(t1)
	used.Init(t2)
	fresh.Init(t2)
	vfAssert(len(used.attributes) == len(fresh.attributes) && len(used.text) == len(fresh.text), "reused Segmenter: different lengths")
	for i := range fresh.attributes {
		vfAssert(used.attributes[i] == fresh.attributes[i], "reused Segmenter returns different attributes than a fresh one")
	}
	for i := range fresh.text {
		vfAssert(used.text[i] == fresh.text[i], "reused Segmenter holds a different text")
	}
	vfReach("end")
}

// ---- reference for UAX #29 word boundaries (WB3..WB16, WB999) ----
//
// Word rules read only: the word-break class, the code points CR / LF / ZWJ, and Extended_Pictographic.
// The text positions of this harness therefore range over one representative per combination of those
// (selected from repgen's representatives on every run), which keeps sequences of 3..4 runes affordable;
// that the word attributes do not depend on the other classes is what H-C06-reuse/H-C06-grapheme style runs
// over the full domain do not contradict, and is stated as an assumption of this harness.

type vfWordKey struct {
	class               *ucdTable
	pic, cr, lf, zwj bool
}

func vfWordReps() []rune {
	seen := map[vfWordKey]bool{}
	var out []rune
	for _, r := range vfReps {
		k := vfWordKey{ucd.LookupWordBreakClass(r), vfIsPic(r), r == 0x0D, r == 0x0A, r == 0x200D}
		if !seen[k] {
			seen[k] = true
			out = append(out, r)
		}
	}
	return out
}

func vfWordRef(text []rune) []bool {
	n := len(text)
	wordClass := make([]*ucdTable, n)
	for j := range text {
		wordClass[j] = ucd.LookupWordBreakClass(text[j])
	}
	isC := func(i int, c *ucdTable) bool { return wordClass[i] == c }
	any := func(i int, cs ...*ucdTable) bool {
		r := false
		for _, c := range cs {
			r = vfOr(r, isC(i, c))
		}
		return r
	}
	ahl := []*ucdTable{ucd.WordBreakALetter, ucd.WordBreakHebrew_Letter}
	mid := []*ucdTable{ucd.WordBreakMidLetter, ucd.WordBreakMidNumLet, ucd.WordBreakSingle_Quote}
	midN := []*ucdTable{ucd.WordBreakMidNum, ucd.WordBreakMidNumLet, ucd.WordBreakSingle_Quote}
	heb, num, kat, enl := ucd.WordBreakHebrew_Letter, ucd.WordBreakNumeric, ucd.WordBreakKatakana, ucd.WordBreakExtendNumLet
	sq, dq, ri := ucd.WordBreakSingle_Quote, ucd.WordBreakDouble_Quote, ucd.WordBreakRegional_Indicator
	lettersNumKat := []*ucdTable{ucd.WordBreakALetter, heb, num, kat}

	nl := make([]bool, n)
	skip := make([]bool, n)
	for i := range text {
		nl[i] = isC(i, ucd.WordBreakNewlineCRLF)
		skip[i] = isC(i, ucd.WordBreakExtendFormat)
	}
	// WB4: a skip character is REMOVED unless it stands at the start of text or after CR/LF/Newline
	removed := make([]bool, n)
	for i := 1; i < n; i++ {
		removed[i] = vfAnd(skip[i], !nl[i-1])
	}
	// parity of regional indicators along the effective sequence (removed characters carry it through)
	riOdd := make([]bool, n)
	for j := 0; j < n; j++ {
		prev := false
		if j > 0 {
			prev = riOdd[j-1]
		}
		riOdd[j] = vfOr(vfAnd(removed[j], prev), vfAnd(!removed[j], vfAnd(isC(j, ri), !prev)))
	}
	out := make([]bool, n+1)
	out[0], out[n] = true, true
	for i := 1; i < n; i++ {
		// effective neighbours, as branch-free selections over the (tiny) text:
		// sel1[j]: j is the nearest non-removed character left of the boundary; sel2[j]: the second nearest;
		// selR[j]: the nearest non-removed character right of position i
		sel1 := make([]bool, n)
		sel2 := make([]bool, n)
		selR := make([]bool, n)
		for j := 0; j < i; j++ {
			allRemoved := true // characters strictly between j and i
			oneKept := false   // exactly one of them is kept
			for k := j + 1; k < i; k++ {
				oneKept = vfOr(vfAnd(oneKept, removed[k]), vfAnd(allRemoved, !removed[k]))
				allRemoved = vfAnd(allRemoved, removed[k])
			}
			sel1[j] = vfAnd(!removed[j], allRemoved)
			sel2[j] = vfAnd(!removed[j], oneKept)
		}
		for j := i + 1; j < n; j++ {
			allRemoved := true
			for k := i + 1; k < j; k++ {
				allRemoved = vfAnd(allRemoved, removed[k])
			}
			selR[j] = vfAnd(!removed[j], allRemoved)
		}
		pick := func(sel []bool, cs ...*ucdTable) bool {
			r := false
			for j := range sel {
				if j != i {
					r = vfOr(r, vfAnd(sel[j], any(j, cs...)))
				}
			}
			return r
		}
		l1 := func(cs ...*ucdTable) bool { return pick(sel1, cs...) }
		l2 := func(cs ...*ucdTable) bool { return pick(sel2, cs...) }
		r1 := func(cs ...*ucdTable) bool { return pick(selR, cs...) }
		r0 := func(cs ...*ucdTable) bool { return any(i, cs...) }
		l1RiOdd := false
		for j := 0; j < i; j++ {
			l1RiOdd = vfOr(l1RiOdd, vfAnd(sel1[j], riOdd[j]))
		}

		wb3 := vfAnd(text[i-1] == 0x0D, text[i] == 0x0A)
		wb3ab := vfOr(nl[i-1], nl[i])
		wb3c := vfAnd(text[i-1] == 0x200D, vfIsPic(text[i]))
		wb3d := vfAnd(isC(i-1, ucd.WordBreakWSegSpace), isC(i, ucd.WordBreakWSegSpace))
		wb4 := skip[i]
		wb5 := vfAnd(l1(ahl...), r0(ahl...))
		wb6 := vfAnd(l1(ahl...), vfAnd(r0(mid...), r1(ahl...)))
		wb7 := vfAnd(l2(ahl...), vfAnd(l1(mid...), r0(ahl...)))
		wb7a := vfAnd(l1(heb), r0(sq))
		wb7b := vfAnd(l1(heb), vfAnd(r0(dq), r1(heb)))
		wb7c := vfAnd(l2(heb), vfAnd(l1(dq), r0(heb)))
		wb8to10 := vfOr(vfAnd(l1(num), r0(num)), vfOr(vfAnd(l1(ahl...), r0(num)), vfAnd(l1(num), r0(ahl...))))
		wb11 := vfAnd(l2(num), vfAnd(l1(midN...), r0(num)))
		wb12 := vfAnd(l1(num), vfAnd(r0(midN...), r1(num)))
		wb13 := vfAnd(l1(kat), r0(kat))
		wb13a := vfAnd(vfOr(l1(lettersNumKat...), l1(enl)), r0(enl))
		wb13b := vfAnd(l1(enl), r0(lettersNumKat...))
		wb1516 := vfAnd(vfAnd(l1(ri), r0(ri)), l1RiOdd)
		noBreak := vfOr(vfOr(vfOr(wb3c, wb3d), vfOr(wb4, wb5)), vfOr(vfOr(vfOr(wb6, wb7), vfOr(wb7a, wb7b)), vfOr(vfOr(vfOr(wb7c, wb8to10), vfOr(wb11, wb12)), vfOr(vfOr(wb13, wb13a), vfOr(wb13b, wb1516)))))
		out[i] = vfAnd(!wb3, vfOr(wb3ab, !noBreak))
	}
	return out
}

// H-C06-word: the real Segmenter.Init against the UAX #29 word-boundary reference on every sequence of
// word-rule representatives of the bounded length.
func VfH_C06_word() {
	max := 3
	if vfThorough() {
		max = 4
	}
	reps := vfWordReps()
	n := 1 + vfChoice("textLen", max)
	text := make([]rune, n)
	for i := range text {
		text[i] = reps[vfInt("wordRep", 0, len(reps)-1)]
	}
	var seg Segmenter
	seg.Init(text)
	want := vfWordRef(text)
	for i := 0; i <= n; i++ {
		vfAssert((seg.attributes[i]&wordBoundary != 0) == want[i], "word boundary differs from UAX #29 (WB rules)")
	}
	vfCover("inner-nobreak", n >= 2 && !want[1])
	vfCover("inner-break", n >= 2 && want[1])
	vfReach("end")
}

// ---- H-C06-grapheme-long: grapheme rules on longer sequences over the grapheme-rule representatives
// (grapheme class x Extended_Pictographic), as H-C06-word does for the word rules.
type vfGraphemeKey struct {
	class *ucdTable
	pic   bool
}

func vfGraphemeReps() []rune {
	seen := map[vfGraphemeKey]bool{}
	var out []rune
	for _, r := range vfReps {
		k := vfGraphemeKey{ucd.LookupGraphemeBreakClass(r), vfIsPic(r)}
		if !seen[k] {
			seen[k] = true
			out = append(out, r)
		}
	}
	return out
}

func VfH_C06_grapheme_long() {
	max := 3
	if vfThorough() {
		max = 4
	}
	reps := vfGraphemeReps()
	n := 1 + vfChoice("textLen", max)
	text := make([]rune, n)
	for i := range text {
		text[i] = reps[vfInt("graphemeRep", 0, len(reps)-1)]
	}
	var seg Segmenter
	seg.Init(text)
	want := vfGraphemeRef(text)
	for i := 0; i <= n; i++ {
		vfAssert((seg.attributes[i]&graphemeBoundary != 0) == want[i], "grapheme boundary differs from UAX #29 (GB rules)")
	}
	vfCover("inner-nobreak", n >= 2 && !want[1])
	vfCover("inner-break", n >= 2 && want[1])
	vfReach("end")
}

// ---- reference for UAX #14 line breaking (LB4..LB31, with the LB13/LB25 "Example 7" tailoring the
// library documents), branch-free over class predicates ----
//
// Line rules read: the line-break class, the general category (Mn/Mc for SA, unassigned for LB30b),
// LargeEastAsian (LB30), Extended_Pictographic (LB30b). Positions range over one representative per
// combination of those.

type vfLineKey struct {
	class          *ucdTable
	mnmc, ea, pic bool
	unassigned     bool
}

func vfLineReps() []rune {
	seen := map[vfLineKey]bool{}
	var out []rune
	for _, r := range vfReps {
		t := ucd.LookupType(r)
		k := vfLineKey{ucd.LookupLineBreakClass(r), t == unicode.Mn || t == unicode.Mc, unicode.Is(ucd.LargeEastAsian, r), vfIsPic(r), t == nil}
		if !seen[k] {
			seen[k] = true
			out = append(out, r)
		}
	}
	return out
}

// vfLineRef returns, per boundary 1..n-1, whether a break is allowed there.
func vfLineRef(text []rune) []bool {
	n := len(text)
	// one table lookup per position and property
	rawClass := make([]*ucdTable, n)
	mnmc := make([]bool, n)
	wide := make([]bool, n)  // LargeEastAsian
	picCn := make([]bool, n) // Extended_Pictographic and unassigned
	for j := range text {
		rawClass[j] = ucd.LookupLineBreakClass(text[j])
		t := ucd.LookupType(text[j])
		mnmc[j] = vfOr(t == unicode.Mn, t == unicode.Mc)
		wide[j] = unicode.Is(ucd.LargeEastAsian, text[j])
		picCn[j] = vfAnd(vfIsPic(text[j]), t == nil)
	}
	raw := func(j int, c *ucdTable) bool { return rawClass[j] == c }
	// LB1
	cls := func(j int, c *ucdTable) bool {
		switch c {
		case ucd.BreakAL:
			return vfOr(vfOr(raw(j, ucd.BreakAL), raw(j, ucd.BreakAI)), vfOr(vfOr(raw(j, ucd.BreakSG), raw(j, ucd.BreakXX)), vfAnd(raw(j, ucd.BreakSA), !mnmc[j])))
		case ucd.BreakCM:
			return vfOr(raw(j, ucd.BreakCM), vfAnd(raw(j, ucd.BreakSA), mnmc[j]))
		case ucd.BreakNS:
			return vfOr(raw(j, ucd.BreakNS), raw(j, ucd.BreakCJ))
		}
		return raw(j, c)
	}
	clsAny := func(j int, cs ...*ucdTable) bool {
		r := false
		for _, c := range cs {
			r = vfOr(r, cls(j, c))
		}
		return r
	}
	hard := []*ucdTable{ucd.BreakBK, ucd.BreakCR, ucd.BreakLF, ucd.BreakNL}
	cmz := make([]bool, n)      // CM or ZWJ
	attached := make([]bool, n) // LB9: absorbed into the preceding character
	for j := range text {
		cmz[j] = clsAny(j, ucd.BreakCM, ucd.BreakZWJ)
		if j > 0 {
			attached[j] = vfAnd(cmz[j], !vfOr(clsAny(j-1, hard...), clsAny(j-1, ucd.BreakSP, ucd.BreakZW)))
		}
	}
	// effective class after LB9/LB10 of a character that is not absorbed
	eff := func(j int, cs ...*ucdTable) bool {
		al := false
		for _, c := range cs {
			if c == ucd.BreakAL {
				al = true
			}
		}
		return vfAnd(!attached[j], vfOr(vfAnd(cmz[j], al), vfAnd(!cmz[j], clsAny(j, cs...))))
	}
	// prefix scans over the effective sequence: numeric sequences (LB25) and regional-indicator parity (LB30a)
	numSeq := make([]bool, n)   // ends NU (NU|SY|IS)*
	closeSeq := make([]bool, n) // ends NU (NU|SY|IS)* (CL|CP)
	riOdd := make([]bool, n)
	for j := 0; j < n; j++ {
		pNum, pClose, pOdd := false, false, false
		if j > 0 {
			pNum, pClose, pOdd = numSeq[j-1], closeSeq[j-1], riOdd[j-1]
		}
		numSeq[j] = vfOr(vfAnd(attached[j], pNum), vfAnd(!attached[j], vfOr(eff(j, ucd.BreakNU), vfAnd(pNum, eff(j, ucd.BreakSY, ucd.BreakIS)))))
		closeSeq[j] = vfOr(vfAnd(attached[j], pClose), vfAnd(!attached[j], vfAnd(pNum, eff(j, ucd.BreakCL, ucd.BreakCP))))
		riOdd[j] = vfOr(vfAnd(attached[j], pOdd), vfAnd(!attached[j], vfAnd(eff(j, ucd.BreakRI), !pOdd)))
	}

	out := make([]bool, n+1)
	out[n] = true
	for i := 1; i < n; i++ {
		sel1 := make([]bool, n) // nearest character left of the boundary that is not absorbed
		sel2 := make([]bool, n) // the one before it
		selR := make([]bool, n) // nearest character right of position i that is not absorbed
		selS := make([]bool, n) // X of "X SP* x": everything between X and the boundary is absorbed or SP
		for j := 0; j < i; j++ {
			allAtt, oneKept, allAttOrSp := true, false, true
			for k := j + 1; k < i; k++ {
				oneKept = vfOr(vfAnd(oneKept, attached[k]), vfAnd(allAtt, !attached[k]))
				allAtt = vfAnd(allAtt, attached[k])
				allAttOrSp = vfAnd(allAttOrSp, vfOr(attached[k], cls(k, ucd.BreakSP)))
			}
			sel1[j] = vfAnd(!attached[j], allAtt)
			sel2[j] = vfAnd(!attached[j], oneKept)
			selS[j] = vfAnd(vfAnd(!attached[j], !cls(j, ucd.BreakSP)), allAttOrSp)
		}
		for j := i + 1; j < n; j++ {
			allAtt := true
			for k := i + 1; k < j; k++ {
				allAtt = vfAnd(allAtt, attached[k])
			}
			selR[j] = vfAnd(!attached[j], allAtt)
		}
		pick := func(sel []bool, cs ...*ucdTable) bool {
			r := false
			for j := range sel {
				if j != i {
					r = vfOr(r, vfAnd(sel[j], eff(j, cs...)))
				}
			}
			return r
		}
		l1 := func(cs ...*ucdTable) bool { return pick(sel1, cs...) }
		l2 := func(cs ...*ucdTable) bool { return pick(sel2, cs...) }
		r1 := func(cs ...*ucdTable) bool { return pick(selR, cs...) }
		bs := func(cs ...*ucdTable) bool { return pick(selS, cs...) }
		r0 := func(cs ...*ucdTable) bool { return eff(i, cs...) }
		l1Num, l1Close, l1Odd, l1CpNarrow, l1PicCn := false, false, false, false, false
		for j := 0; j < i; j++ {
			l1Num = vfOr(l1Num, vfAnd(sel1[j], numSeq[j]))
			l1Close = vfOr(l1Close, vfAnd(sel1[j], closeSeq[j]))
			l1Odd = vfOr(l1Odd, vfAnd(sel1[j], riOdd[j]))
			l1CpNarrow = vfOr(l1CpNarrow, vfAnd(sel1[j], vfAnd(eff(j, ucd.BreakCP), !wide[j])))
			l1PicCn = vfOr(l1PicCn, vfAnd(sel1[j], picCn[j]))
		}
		AL, HL, NU, PR, PO, OP, HY := ucd.BreakAL, ucd.BreakHL, ucd.BreakNU, ucd.BreakPR, ucd.BreakPO, ucd.BreakOP, ucd.BreakHY
		CL, CP, IS, SY := ucd.BreakCL, ucd.BreakCP, ucd.BreakIS, ucd.BreakSY
		JL, JV, JT, H2, H3 := ucd.BreakJL, ucd.BreakJV, ucd.BreakJT, ucd.BreakH2, ucd.BreakH3

		// rules that decide before LB9 and read the raw neighbours
		lb45 := vfOr(vfOr(cls(i-1, ucd.BreakBK), vfOr(cls(i-1, ucd.BreakLF), cls(i-1, ucd.BreakNL))), vfAnd(cls(i-1, ucd.BreakCR), !cls(i, ucd.BreakLF))) // mandatory break
		lb5no := vfAnd(cls(i-1, ucd.BreakCR), cls(i, ucd.BreakLF))
		lb6 := clsAny(i, hard...)
		lb7 := clsAny(i, ucd.BreakSP, ucd.BreakZW)
		lb8 := bs(ucd.BreakZW)
		lb8a := cls(i-1, ucd.BreakZWJ)
		lb9 := attached[i]

		no := func(bs ...bool) bool {
			r := false
			for _, b := range bs {
				r = vfOr(r, b)
			}
			return r
		}
		lb11 := vfOr(r0(ucd.BreakWJ), l1(ucd.BreakWJ))
		lb12 := l1(ucd.BreakGL)
		lb12a := vfAnd(!l1(ucd.BreakSP, ucd.BreakBA, HY), r0(ucd.BreakGL))
		lb13 := vfOr(r0(ucd.BreakEX), vfAnd(!l1(NU), r0(CL, CP, IS, SY)))
		lb14 := bs(OP)
		lb15 := vfAnd(bs(ucd.BreakQU), r0(OP))
		lb16 := vfAnd(bs(CL, CP), r0(ucd.BreakNS))
		lb17 := vfAnd(bs(ucd.BreakB2), r0(ucd.BreakB2))
		first := no(lb11, lb12, lb12a, lb13, lb14, lb15, lb16, lb17) // all "no break"
		lb18 := l1(ucd.BreakSP)                                    // break
		lb19 := vfOr(r0(ucd.BreakQU), l1(ucd.BreakQU))
		lb20 := vfOr(r0(ucd.BreakCB), l1(ucd.BreakCB)) // break
		lb21 := vfOr(r0(ucd.BreakBA, HY, ucd.BreakNS), l1(ucd.BreakBB))
		lb21a := vfAnd(l2(HL), l1(HY, ucd.BreakBA))
		lb21b := vfAnd(l1(SY), r0(HL))
		lb22 := r0(ucd.BreakIN)
		lb23 := vfOr(vfAnd(l1(AL, HL), r0(NU)), vfAnd(l1(NU), r0(AL, HL)))
		lb23a := vfOr(vfAnd(l1(PR), r0(ucd.BreakID, ucd.BreakEB, ucd.BreakEM)), vfAnd(l1(ucd.BreakID, ucd.BreakEB, ucd.BreakEM), r0(PO)))
		lb24 := vfOr(vfAnd(l1(PR, PO), r0(AL, HL)), vfAnd(l1(AL, HL), r0(PR, PO)))
		lb25 := no(
			vfAnd(l1(PR, PO), vfOr(r0(NU), vfAnd(r0(OP, HY), r1(NU)))),
			vfAnd(l1(OP, HY), r0(NU)),
			vfAnd(l1Num, r0(NU, SY, IS, CL, CP)),
			vfAnd(vfOr(l1Num, l1Close), r0(PO, PR)))
		lb26 := no(vfAnd(l1(JL), r0(JL, JV, H2, H3)), vfAnd(l1(JV, H2), r0(JV, JT)), vfAnd(l1(JT, H3), r0(JT)))
		lb27 := vfOr(vfAnd(l1(JL, JV, JT, H2, H3), r0(PO)), vfAnd(l1(PR), r0(JL, JV, JT, H2, H3)))
		lb28 := vfAnd(l1(AL, HL), r0(AL, HL))
		lb29 := vfAnd(l1(IS), r0(AL, HL))
		lb30 := vfOr(vfAnd(l1(AL, HL, NU), vfAnd(r0(OP), !wide[i])), vfAnd(l1CpNarrow, r0(AL, HL, NU)))
		lb30a := vfAnd(vfAnd(l1(ucd.BreakRI), l1Odd), r0(ucd.BreakRI))
		lb30b := vfOr(vfAnd(l1(ucd.BreakEB), r0(ucd.BreakEM)), vfAnd(l1PicCn, r0(ucd.BreakEM)))
		rest := no(lb21, lb21a, lb21b, lb22, lb23, lb23a, lb24, lb25, lb26, lb27, lb28, lb29, lb30, lb30a, lb30b)

		// priority cascade, first match wins:
		//  LB4/5 break | LB5,6,7 no | LB8 break | LB8a,9 no | LB11-17 no | LB18 break | LB19 no | LB20 break | LB21-30b no | LB31 break
		tail := vfOr(lb20, !rest)
		tail = vfAnd(!lb19, tail)
		tail = vfOr(lb18, tail)
		tail = vfAnd(!first, tail)
		tail = vfAnd(!vfOr(lb8a, lb9), tail)
		tail = vfOr(lb8, tail)
		tail = vfAnd(!no(lb5no, lb6, lb7), tail)
		out[i] = vfOr(lb45, tail)
	}
	return out
}

// H-C06-line: the real Segmenter.Init against the UAX #14 reference on every sequence of line-rule
// representatives of the bounded length.
func VfH_C06_line() {
	max := 2
	if vfThorough() {
		max = 3
	}
	reps := vfLineReps()
	n := 1 + vfChoice("textLen", max)
	text := make([]rune, n)
	for i := range text {
		text[i] = reps[vfInt("lineRep", 0, len(reps)-1)]
	}
	var seg Segmenter
	seg.Init(text)
	want := vfLineRef(text)
	for i := 0; i <= n; i++ {
		vfAssert((seg.attributes[i]&lineBoundary != 0) == want[i], "line break opportunity differs from UAX #14 (LB rules)")
	}
	vfCover("inner-nobreak", n >= 2 && !want[1])
	vfCover("inner-break", n >= 2 && want[1])
	vfReach("end")
}

// H-C06-line-numeric: the numeric context rules (LB13, LB25 tailoring: prefix / opening / digits with
// separators / closing / postfix) need 4..5 characters; this harness walks longer sequences over the
// representatives of the classes those rules mention (PR PO OP HY NU SY IS CL CP) plus CM, ZWJ, SP and AL.
func vfNumericReps() []rune {
	want := []*ucdTable{ucd.BreakPR, ucd.BreakPO, ucd.BreakOP, ucd.BreakHY, ucd.BreakNU, ucd.BreakSY, ucd.BreakIS,
		ucd.BreakCL, ucd.BreakCP, ucd.BreakCM, ucd.BreakZWJ, ucd.BreakSP, ucd.BreakAL}
	seen := map[*ucdTable]bool{}
	var out []rune
	for _, r := range vfReps {
		c := ucd.LookupLineBreakClass(r)
		for _, w := range want {
			if c == w && !seen[c] && !unicode.Is(ucd.LargeEastAsian, r) {
				seen[c] = true
				out = append(out, r)
			}
		}
	}
	return out
}

func VfH_C06_line_numeric() {
	reps := vfNumericReps()
	n := 4
	if vfThorough() {
		n = 4 + vfChoice("extra", 2)
	}
	text := make([]rune, n)
	for i := range text {
		text[i] = reps[vfInt("numRep", 0, len(reps)-1)]
	}
	var seg Segmenter
	seg.Init(text)
	want := vfLineRef(text)
	lineClass := make([]*ucdTable, n)
	for j := range text {
		lineClass[j] = ucd.LookupLineBreakClass(text[j])
	}
	is := func(j int, cs ...*ucdTable) bool {
		r := false
		for _, c := range cs {
			r = vfOr(r, lineClass[j] == c)
		}
		return r
	}
	// known finding: the one-rune lookahead of "(PR | PO) x (OP | HY) NU" does not skip combining marks (LB9).
	// The class is exactly: boundary between PR|PO (possibly followed by combining marks) and OP|HY, followed by CM or ZWJ.
	inClass := make([]bool, n)
	agree := make([]bool, n)
	for i := 1; i < n; i++ {
		agree[i] = (seg.attributes[i]&lineBoundary != 0) == want[i]
		if i+1 < n {
			// the character left of the boundary, through combining marks (LB9), is PR or PO
			leftPRPO := false
			for j := 0; j < i; j++ {
				onlyMarks := true
				for k := j + 1; k < i; k++ {
					onlyMarks = vfAnd(onlyMarks, is(k, ucd.BreakCM, ucd.BreakZWJ))
				}
				leftPRPO = vfOr(leftPRPO, vfAnd(is(j, ucd.BreakPR, ucd.BreakPO), onlyMarks))
			}
			inClass[i] = vfAnd(vfAnd(leftPRPO, is(i, ucd.BreakOP, ucd.BreakHY)), is(i+1, ucd.BreakCM, ucd.BreakZWJ))
		}
		vfAssert(vfOr(inClass[i], agree[i]), "line break opportunity differs from UAX #14 (LB rules)")
	}
	for i := 1; i+1 < n; i++ {
		vfKnown("C06-lb25-lookahead-across-combining-mark", vfAnd(inClass[i], !agree[i]))
		vfAssert(vfImplies(inClass[i], agree[i]), "line break opportunity differs from UAX #14 (LB rules)")
	}
	vfReach("end")
}

// H-C06-grapheme-emoji: the emoji rules GB9/GB11/GB12/GB13 keep state over arbitrarily long sequences
// (ExtPict Extend* ZWJ ExtPict chains, regional-indicator pairs): sequences of 5 (6 thorough) runes over the
// representatives of {Extended_Pictographic, Extend, ZWJ, Regional_Indicator, no class}.
func vfEmojiReps() []rune {
	seen := map[vfGraphemeKey]bool{}
	var out []rune
	for _, r := range vfReps {
		c := ucd.LookupGraphemeBreakClass(r)
		if c != nil && c != ucd.GraphemeBreakExtend && c != ucd.GraphemeBreakZWJ && c != ucd.GraphemeBreakRegional_Indicator {
			continue
		}
		k := vfGraphemeKey{c, vfIsPic(r)}
		if !seen[k] {
			seen[k] = true
			out = append(out, r)
		}
	}
	return out
}

func VfH_C06_grapheme_emoji() {
	reps := vfEmojiReps()
	n := 5
	if vfThorough() {
		n = 5 + vfChoice("extra", 2)
	}
	text := make([]rune, n)
	for i := range text {
		text[i] = reps[vfInt("emojiRep", 0, len(reps)-1)]
	}
	var seg Segmenter
	seg.Init(text)
	want := vfGraphemeRef(text)
	for i := 0; i <= n; i++ {
		vfAssert((seg.attributes[i]&graphemeBoundary != 0) == want[i], "grapheme boundary differs from UAX #29 (GB rules)")
	}
	vfReach("end")
}

// H-C06-word-chain: word rules with look-behind state over longer sequences (WB4 skipping inside WB6/WB7,
// WB11/WB12, WB15/WB16 parity): sequences of 5 (6 thorough) runes over the representatives of
// {ALetter, MidLetter, MidNumLet, Numeric, MidNum, ExtendFormat (not ZWJ), Regional_Indicator}.
func vfWordChainReps() []rune {
	want := []*ucdTable{ucd.WordBreakALetter, ucd.WordBreakMidLetter, ucd.WordBreakMidNumLet, ucd.WordBreakNumeric,
		ucd.WordBreakMidNum, ucd.WordBreakExtendFormat, ucd.WordBreakRegional_Indicator}
	seen := map[*ucdTable]bool{}
	var out []rune
	for _, r := range vfReps {
		c := ucd.LookupWordBreakClass(r)
		for _, w := range want {
			if c == w && !seen[c] && !vfIsPic(r) && r != 0x200D {
				seen[c] = true
				out = append(out, r)
			}
		}
	}
	return out
}

func VfH_C06_word_chain() {
	reps := vfWordChainReps()
	n := 5
	if vfThorough() {
		n = 5 + vfChoice("extra", 2)
	}
	text := make([]rune, n)
	for i := range text {
		text[i] = reps[vfInt("chainRep", 0, len(reps)-1)]
	}
	var seg Segmenter
	seg.Init(text)
	want := vfWordRef(text)
	for i := 0; i <= n; i++ {
		vfAssert((seg.attributes[i]&wordBoundary != 0) == want[i], "word boundary differs from UAX #29 (WB rules)")
	}
	vfReach("end")
}

// H-C06-line-spaces: the line rules with "X SP* x" contexts and regional-indicator parity keep state over
// longer sequences (LB8, LB14-LB17, LB18, LB30a with LB9): sequences of 5 (6 thorough) runes over narrow
// representatives of {SP, ZW, OP, QU, CL, CP, NS, B2, RI, CM, AL}.
func vfLineSpaceReps() []rune {
	want := []*ucdTable{ucd.BreakSP, ucd.BreakZW, ucd.BreakOP, ucd.BreakQU, ucd.BreakCL, ucd.BreakCP, ucd.BreakNS,
		ucd.BreakB2, ucd.BreakRI, ucd.BreakCM, ucd.BreakAL}
	seen := map[*ucdTable]bool{}
	var out []rune
	for _, r := range vfReps {
		c := ucd.LookupLineBreakClass(r)
		for _, w := range want {
			if c == w && !seen[c] && !unicode.Is(ucd.LargeEastAsian, r) {
				seen[c] = true
				out = append(out, r)
			}
		}
	}
	return out
}

func VfH_C06_line_spaces() {
	reps := vfLineSpaceReps()
	n := 5
	if vfThorough() {
		n = 5 + vfChoice("extra", 2)
	}
	text := make([]rune, n)
	for i := range text {
		text[i] = reps[vfInt("spaceRep", 0, len(reps)-1)]
	}
	var seg Segmenter
	seg.Init(text)
	want := vfLineRef(text)
	for i := 0; i <= n; i++ {
		vfAssert((seg.attributes[i]&lineBoundary != 0) == want[i], "line break opportunity differs from UAX #14 (LB rules)")
	}
	vfReach("end")
}

// H-C06-reuse-state (also C13): reuse with texts that leave every piece of cursor state switched on at the
// end of the first text (regional-indicator parities of the three rule sets, emoji sequence, numeric
// sequence, before-spaces context): both texts have 2 (3 thorough) runes over the representatives of the
// stateful rules.
func vfStateReps() []rune {
	seen := map[rune]bool{}
	var out []rune
	for _, list := range [][]rune{vfEmojiReps(), vfNumericReps(), vfLineSpaceReps()} {
		for _, r := range list {
			if !seen[r] {
				seen[r] = true
				out = append(out, r)
			}
		}
	}
	return out
}

func VfH_C06_reuse_state() {
	reps := vfStateReps()
	n := 2
	if vfThorough() {
		n = 3
	}
	t1, t2 := make([]rune, n), make([]rune, n)
	for i := range t1 {
		t1[i] = reps[vfInt("stateRep1", 0, len(reps)-1)]
	}
	for i := range t2 {
		t2[i] = reps[vfInt("stateRep2", 0, len(reps)-1)]
	}
	var used, fresh Segmenter
	used.Init(t1)
	used.Init(t2)
	fresh.Init(t2)
	vfAssert(len(used.attributes) == len(fresh.attributes) && len(used.text) == len(fresh.text), "reused Segmenter: different lengths")
	for i := range fresh.attributes {
		vfAssert(used.attributes[i] == fresh.attributes[i], "reused Segmenter returns different attributes than a fresh one")
	}
	vfReach("end")
}

// H-C06-line-hyphen: the look-behind rules around hyphens and Hebrew (LB21, LB21a, LB21b, LB12a, LB20 with LB9):
// sequences of 4 (5 thorough) runes over narrow representatives of {HL, HY, BA, BB, CM, AL, SY, GL, CB, SP}.
func vfLineHyphenReps() []rune {
	want := []*ucdTable{ucd.BreakHL, ucd.BreakHY, ucd.BreakBA, ucd.BreakBB, ucd.BreakCM, ucd.BreakAL, ucd.BreakSY,
		ucd.BreakGL, ucd.BreakCB, ucd.BreakSP}
	seen := map[*ucdTable]bool{}
	var out []rune
	for _, r := range vfReps {
		c := ucd.LookupLineBreakClass(r)
		for _, w := range want {
			if c == w && !seen[c] && !unicode.Is(ucd.LargeEastAsian, r) {
				seen[c] = true
				out = append(out, r)
			}
		}
	}
	return out
}

func VfH_C06_line_hyphen() {
	reps := vfLineHyphenReps()
	n := 4
	if vfThorough() {
		n = 4 + vfChoice("extra", 2)
	}
	text := make([]rune, n)
	for i := range text {
		text[i] = reps[vfInt("hyphenRep", 0, len(reps)-1)]
	}
	var seg Segmenter
	seg.Init(text)
	want := vfLineRef(text)
	for i := 0; i <= n; i++ {
		vfAssert((seg.attributes[i]&lineBoundary != 0) == want[i], "line break opportunity differs from UAX #14 (LB rules)")
	}
	vfReach("end")
}

// vfRepsOfLine / vfRepsOfWord select one narrow representative per listed class from repgen's list.
func vfRepsOfLine(want ...*ucdTable) []rune {
	seen := map[*ucdTable]bool{}
	var out []rune
	for _, r := range vfReps {
		c := ucd.LookupLineBreakClass(r)
		for _, w := range want {
			if c == w && !seen[c] && !unicode.Is(ucd.LargeEastAsian, r) && !(c == ucd.BreakSA) {
				seen[c] = true
				out = append(out, r)
			}
		}
	}
	return out
}

func vfRepsOfWord(want ...*ucdTable) []rune {
	seen := map[*ucdTable]bool{}
	var out []rune
	for _, r := range vfReps {
		c := ucd.LookupWordBreakClass(r)
		for _, w := range want {
			if c == w && !seen[c] && !vfIsPic(r) && r != 0x200D && r != 0x0D && r != 0x0A {
				seen[c] = true
				out = append(out, r)
			}
		}
	}
	return out
}

func vfLineChain(reps []rune, name string) {
	n := 4
	if vfThorough() {
		n = 4 + vfChoice("extra", 2)
	}
	text := make([]rune, n)
	for i := range text {
		text[i] = reps[vfInt(name, 0, len(reps)-1)]
	}
	var seg Segmenter
	seg.Init(text)
	want := vfLineRef(text)
	for i := 0; i <= n; i++ {
		vfAssert((seg.attributes[i]&lineBoundary != 0) == want[i], "line break opportunity differs from UAX #14 (LB rules)")
	}
	vfReach("end")
}

// H-C06-line-korean: LB26, LB27 (Hangul syllable blocks with prefix / postfix) and LB9.
func VfH_C06_line_korean() {
	vfLineChain(vfRepsOfLine(ucd.BreakJL, ucd.BreakJV, ucd.BreakJT, ucd.BreakH2, ucd.BreakH3, ucd.BreakPR, ucd.BreakPO, ucd.BreakCM, ucd.BreakAL), "koreanRep")
}

// H-C06-line-ideo: LB22, LB23a, LB24, LB28-LB30b around ideographs, emoji bases / modifiers, inseparables, exclamation, infix.
func VfH_C06_line_ideo() {
	vfLineChain(vfRepsOfLine(ucd.BreakID, ucd.BreakEB, ucd.BreakEM, ucd.BreakPR, ucd.BreakPO, ucd.BreakIN, ucd.BreakEX, ucd.BreakIS, ucd.BreakAL, ucd.BreakCM, ucd.BreakNU), "ideoRep")
}

// H-C06-line-glue: LB11, LB12, LB12a, LB13, LB19 (word joiner, glue, quotation) and LB8a / LB9 with ZWJ.
func VfH_C06_line_glue() {
	vfLineChain(vfRepsOfLine(ucd.BreakWJ, ucd.BreakGL, ucd.BreakQU, ucd.BreakZWJ, ucd.BreakCM, ucd.BreakSP, ucd.BreakBA, ucd.BreakAL, ucd.BreakCL, ucd.BreakEX), "glueRep")
}

// H-C06-word-chain2: the word rules not reached by H-C06-word-chain: Hebrew letters with quotes (WB7a-c),
// Katakana, ExtendNumLet (WB13-WB13b), white space (WB3d), with WB4.
func VfH_C06_word_chain2() {
	reps := vfRepsOfWord(ucd.WordBreakHebrew_Letter, ucd.WordBreakSingle_Quote, ucd.WordBreakDouble_Quote, ucd.WordBreakKatakana,
		ucd.WordBreakExtendNumLet, ucd.WordBreakExtendFormat, ucd.WordBreakALetter, ucd.WordBreakWSegSpace, ucd.WordBreakNumeric)
	n := 5
	if vfThorough() {
		n = 5 + vfChoice("extra", 2)
	}
	text := make([]rune, n)
	for i := range text {
		text[i] = reps[vfInt("chain2Rep", 0, len(reps)-1)]
	}
	var seg Segmenter
	seg.Init(text)
	want := vfWordRef(text)
	for i := 0; i <= n; i++ {
		vfAssert((seg.attributes[i]&wordBoundary != 0) == want[i], "word boundary differs from UAX #29 (WB rules)")
	}
	vfReach("end")
}

//go:build verif

package segmenter

import (
	ucd "github.com/go-text/typesetting/unicodedata"
)

// A symbolic text: every position is an arbitrary representative of the class partition computed by
// repgen from the current tables (vfReps): together they stand for every code point sequence of the length.
func vfText(name string, n int) []rune {
	t := make([]rune, n)
	for i := range t {
		t[i] = vfReps[vfInt(name, 0, len(vfReps)-1)]
	}
	return t
}

// ---- H-C06-iter: iterators over an ARBITRARY attribute array with the structural guarantees of
// computeBreakAttributes ([0] is no line break, [n] carries every flag).
func VfH_C06_iter() {
	max := 4
	if vfThorough() {
		max = 6
	}
	n := 1 + vfChoice("textLen", max)
	seg := Segmenter{text: make([]rune, n), attributes: make([]breakAttr, n+1)}
	for i := range seg.text {
		seg.text[i] = 'a' + rune(i)
	}
	for i := range seg.attributes {
		seg.attributes[i] = breakAttr(vfU8("attr") & 0x0F)
	}
	seg.attributes[0] = seg.attributes[0]&^lineBoundary&^mandatoryLineBoundary | graphemeBoundary | wordBoundary
	seg.attributes[n] |= lineBoundary | mandatoryLineBoundary | graphemeBoundary | wordBoundary
	for i := range seg.attributes {
		vfAssume(vfImplies(seg.attributes[i]&mandatoryLineBoundary != 0, seg.attributes[i]&lineBoundary != 0))
	}

	next := 0
	for it := seg.LineIterator(); it.Next(); {
		l := it.Line()
		vfAssert(l.Offset == next && len(l.Text) > 0, "LineIterator: segments are not consecutive and non-empty")
		next = l.Offset + len(l.Text)
		vfAssert(next <= n, "LineIterator: segment beyond the text")
		vfAssert(seg.attributes[next]&lineBoundary != 0, "LineIterator: segment ends where no line break is allowed")
		for k := l.Offset + 1; k < next; k++ {
			vfAssert(seg.attributes[k]&lineBoundary == 0, "LineIterator: segment spans a line break opportunity")
		}
		vfAssert(l.IsMandatoryBreak == (seg.attributes[next]&mandatoryLineBoundary != 0), "LineIterator: IsMandatoryBreak does not mirror the attribute")
		vfAssert(&l.Text[0] == &seg.text[l.Offset], "LineIterator: Text is not the sub-slice of the input")
	}
	vfAssert(next == n, "LineIterator: segments do not cover the text")

	next = 0
	for it := seg.GraphemeIterator(); it.Next(); {
		g := it.Grapheme()
		vfAssert(g.Offset == next && len(g.Text) > 0, "GraphemeIterator: segments are not consecutive and non-empty")
		next = g.Offset + len(g.Text)
		vfAssert(next <= n && seg.attributes[next]&graphemeBoundary != 0, "GraphemeIterator: segment ends where no boundary is")
		for k := g.Offset + 1; k < next; k++ {
			vfAssert(seg.attributes[k]&graphemeBoundary == 0, "GraphemeIterator: segment spans a boundary")
		}
	}
	vfAssert(next == n, "GraphemeIterator: segments do not cover the text")

	prevEnd := 0
	for it := seg.WordIterator(); it.Next(); {
		w := it.Word()
		vfAssert(w.Offset >= prevEnd && len(w.Text) > 0 && w.Offset+len(w.Text) <= n, "WordIterator: words overlap, are empty or leave the text")
		prevEnd = w.Offset + len(w.Text)
	}
	vfReach("end")
}

// ---- reference for UAX #29 grapheme cluster boundaries (rules GB3..GB13, GB999), written as a
// multi-pass over class arrays, branch-free.
func vfGraphemeRef(text []rune) []bool {
	n := len(text)
	is := func(i int, c *ucdTable) bool { return ucd.LookupGraphemeBreakClass(text[i]) == c }
	pic := make([]bool, n)
	for i := range text {
		pic[i] = vfIsPic(text[i])
	}
	out := make([]bool, n+1)
	out[0], out[n] = true, true
	// state for GB11 (ExtPict Extend* ZWJ x ExtPict) and GB12/13 (RI pairs), as prefix scans
	inPicExt := make([]bool, n) // text[..i] ends with ExtPict Extend*
	riOdd := make([]bool, n)    // number of consecutive RI ending at i is odd
	for i := 0; i < n; i++ {
		prevPicExt, prevOdd := false, false
		if i > 0 {
			prevPicExt, prevOdd = inPicExt[i-1], riOdd[i-1]
		}
		inPicExt[i] = vfOr(pic[i], vfAnd(prevPicExt, is(i, ucd.GraphemeBreakExtend)))
		riOdd[i] = vfAnd(is(i, ucd.GraphemeBreakRegional_Indicator), !prevOdd)
	}
	for i := 1; i < n; i++ {
		a, b := i-1, i
		ctl := func(k int) bool {
			return vfOr(vfOr(is(k, ucd.GraphemeBreakControl), is(k, ucd.GraphemeBreakCR)), is(k, ucd.GraphemeBreakLF))
		}
		gb3 := vfAnd(is(a, ucd.GraphemeBreakCR), is(b, ucd.GraphemeBreakLF))
		gb45 := vfOr(ctl(a), ctl(b))
		gb6 := vfAnd(is(a, ucd.GraphemeBreakL), vfOr(vfOr(is(b, ucd.GraphemeBreakL), is(b, ucd.GraphemeBreakV)), vfOr(is(b, ucd.GraphemeBreakLV), is(b, ucd.GraphemeBreakLVT))))
		gb7 := vfAnd(vfOr(is(a, ucd.GraphemeBreakLV), is(a, ucd.GraphemeBreakV)), vfOr(is(b, ucd.GraphemeBreakV), is(b, ucd.GraphemeBreakT)))
		gb8 := vfAnd(vfOr(is(a, ucd.GraphemeBreakLVT), is(a, ucd.GraphemeBreakT)), is(b, ucd.GraphemeBreakT))
		gb9 := vfOr(is(b, ucd.GraphemeBreakExtend), is(b, ucd.GraphemeBreakZWJ))
		gb9a := is(b, ucd.GraphemeBreakSpacingMark)
		gb9b := is(a, ucd.GraphemeBreakPrepend)
		beforeZWJ := false
		if a > 0 {
			beforeZWJ = inPicExt[a-1]
		}
		gb11 := vfAnd(vfAnd(is(a, ucd.GraphemeBreakZWJ), beforeZWJ), pic[b])
		gb1213 := vfAnd(riOdd[a], is(b, ucd.GraphemeBreakRegional_Indicator))
		noBreak := vfOr(vfOr(vfOr(gb6, gb7), vfOr(gb8, gb9)), vfOr(vfOr(gb9a, gb9b), vfOr(gb11, gb1213)))
		// GB3 first, then GB4/GB5 force a break, then the no-break rules, else GB999 break
		out[i] = vfAnd(!gb3, vfOr(gb45, !noBreak))
	}
	return out
}

// H-C06-grapheme: the real Segmenter.Init against the UAX #29 grapheme reference on every class sequence of the bounded length.
func VfH_C06_grapheme() {
	max := 2
	if vfThorough() {
		max = 3
	}
	n := 1 + vfChoice("textLen", max)
	text := vfText("rep", n)
	var seg Segmenter
	seg.Init(text)
	want := vfGraphemeRef(text)
	for i := 0; i <= n; i++ {
		vfAssert((seg.attributes[i]&graphemeBoundary != 0) == want[i], "grapheme boundary differs from UAX #29 (GB rules)")
	}
	vfCover("inner-nobreak", n >= 2 && !want[1])
	vfCover("inner-break", n >= 2 && want[1])
	vfReach("end")
}

// H-C06-mandatory: mandatory line breaks (LB4, LB5) and the structural rules LB2/LB3:
// a mandatory break before position i iff the previous rune is BK, LF, NL, or CR not followed by LF.
func VfH_C06_mandatory() {
	max := 2
	if vfThorough() {
		max = 3
	}
	n := 1 + vfChoice("textLen", max)
	text := vfText("rep", n)
	var seg Segmenter
	seg.Init(text)
	lb := func(i int, c *ucdTable) bool { return ucd.LookupLineBreakClass(text[i]) == c }
	vfAssert(seg.attributes[0]&lineBoundary == 0, "LB2: break allowed at the start of text")
	vfAssert(seg.attributes[n]&mandatoryLineBoundary != 0 && seg.attributes[n]&lineBoundary != 0, "LB3: no mandatory break at the end of text")
	for i := 1; i < n; i++ {
		want := vfOr(vfOr(lb(i-1, ucd.BreakBK), vfOr(lb(i-1, ucd.BreakLF), lb(i-1, ucd.BreakNL))), vfAnd(lb(i-1, ucd.BreakCR), !lb(i, ucd.BreakLF)))
		got := seg.attributes[i]&mandatoryLineBoundary != 0
		vfAssert(got == want, "mandatory line break differs from UAX #14 LB4/LB5")
		vfAssert(vfImplies(got, seg.attributes[i]&lineBoundary != 0), "mandatory break without line break opportunity")
		vfAssert(vfImplies(vfAnd(lb(i-1, ucd.BreakCR), lb(i, ucd.BreakLF)), seg.attributes[i]&lineBoundary == 0), "LB5: break inside CR LF")
	}
	vfCover("mandatory", n >= 2 && seg.attributes[1]&mandatoryLineBoundary != 0)
	vfReach("end")
}

// H-C06-reuse (also C13): Init(t1); Init(t2) on one Segmenter equals a fresh Init(t2).
func VfH_C06_reuse() { vfReuse(1, 1) }

// H-C13-seg: the same comparison at the smaller bound used by the C13 check
func VfH_C13_seg() { vfReuse(1, 1) }

func vfReuse(max1, max2 int) {
	if vfThorough() {
		max1, max2 = 2, 2
	}
	n1, n2 := vfChoice("len1", max1+1), vfChoice("len2", max2+1)
	t1, t2 := vfText("rep1", n1), vfText("rep2", n2)
	var used, fresh Segmenter
	used.Init(t1)
	used.Init(t2)
	fresh.Init(t2)
	vfAssert(len(used.attributes) == len(fresh.attributes) && len(used.text) == len(fresh.text), "reused Segmenter: different lengths")
	for i := range fresh.attributes {
		vfAssert(used.attributes[i] == fresh.attributes[i], "reused Segmenter returns different attributes than a fresh one")
	}
	for i := range fresh.text {
		vfAssert(used.text[i] == fresh.text[i], "reused Segmenter holds a different text")
	}
	vfReach("end")
}

// ---- reference for UAX #29 word boundaries (WB3..WB16, WB999) ----
//
// Word rules read only: the word-break class, the code points CR / LF / ZWJ, and Extended_Pictographic.
// The text positions of this harness therefore range over one representative per combination of those
// (selected from repgen's representatives on every run), which keeps sequences of 3..4 runes affordable;
// that the word attributes do not depend on the other classes is what H-C06-reuse/H-C06-grapheme style runs
// over the full domain do not contradict, and is stated as an assumption of this harness.

type vfWordKey struct {
	class               *ucdTable
	pic, cr, lf, zwj bool
}

func vfWordReps() []rune {
	seen := map[vfWordKey]bool{}
	var out []rune
	for _, r := range vfReps {
		k := vfWordKey{ucd.LookupWordBreakClass(r), vfIsPic(r), r == 0x0D, r == 0x0A, r == 0x200D}
		if !seen[k] {
			seen[k] = true
			out = append(out, r)
		}
	}
	return out
}

func vfWordRef(text []rune) []bool {
	n := len(text)
	isC := func(i int, c *ucdTable) bool { return ucd.LookupWordBreakClass(text[i]) == c }
	any := func(i int, cs ...*ucdTable) bool {
		r := false
		for _, c := range cs {
			r = vfOr(r, isC(i, c))
		}
		return r
	}
	ahl := []*ucdTable{ucd.WordBreakALetter, ucd.WordBreakHebrew_Letter}
	mid := []*ucdTable{ucd.WordBreakMidLetter, ucd.WordBreakMidNumLet, ucd.WordBreakSingle_Quote}
	midN := []*ucdTable{ucd.WordBreakMidNum, ucd.WordBreakMidNumLet, ucd.WordBreakSingle_Quote}
	heb, num, kat, enl := ucd.WordBreakHebrew_Letter, ucd.WordBreakNumeric, ucd.WordBreakKatakana, ucd.WordBreakExtendNumLet
	sq, dq, ri := ucd.WordBreakSingle_Quote, ucd.WordBreakDouble_Quote, ucd.WordBreakRegional_Indicator
	lettersNumKat := []*ucdTable{ucd.WordBreakALetter, heb, num, kat}

	nl := make([]bool, n)
	skip := make([]bool, n)
	for i := range text {
		nl[i] = isC(i, ucd.WordBreakNewlineCRLF)
		skip[i] = isC(i, ucd.WordBreakExtendFormat)
	}
	// WB4: a skip character is REMOVED unless it stands at the start of text or after CR/LF/Newline
	removed := make([]bool, n)
	for i := 1; i < n; i++ {
		removed[i] = vfAnd(skip[i], !nl[i-1])
	}
	// parity of regional indicators along the effective sequence (removed characters carry it through)
	riOdd := make([]bool, n)
	for j := 0; j < n; j++ {
		prev := false
		if j > 0 {
			prev = riOdd[j-1]
		}
		riOdd[j] = vfOr(vfAnd(removed[j], prev), vfAnd(!removed[j], vfAnd(isC(j, ri), !prev)))
	}
	out := make([]bool, n+1)
	out[0], out[n] = true, true
	for i := 1; i < n; i++ {
		// effective neighbours, as branch-free selections over the (tiny) text:
		// sel1[j]: j is the nearest non-removed character left of the boundary; sel2[j]: the second nearest;
		// selR[j]: the nearest non-removed character right of position i
		sel1 := make([]bool, n)
		sel2 := make([]bool, n)
		selR := make([]bool, n)
		for j := 0; j < i; j++ {
			allRemoved := true // characters strictly between j and i
			oneKept := false   // exactly one of them is kept
			for k := j + 1; k < i; k++ {
				oneKept = vfOr(vfAnd(oneKept, removed[k]), vfAnd(allRemoved, !removed[k]))
				allRemoved = vfAnd(allRemoved, removed[k])
			}
			sel1[j] = vfAnd(!removed[j], allRemoved)
			sel2[j] = vfAnd(!removed[j], oneKept)
		}
		for j := i + 1; j < n; j++ {
			allRemoved := true
			for k := i + 1; k < j; k++ {
				allRemoved = vfAnd(allRemoved, removed[k])
			}
			selR[j] = vfAnd(!removed[j], allRemoved)
		}
		pick := func(sel []bool, cs ...*ucdTable) bool {
			r := false
			for j := range sel {
				if j != i {
					r = vfOr(r, vfAnd(sel[j], any(j, cs...)))
				}
			}
			return r
		}
		l1 := func(cs ...*ucdTable) bool { return pick(sel1, cs...) }
		l2 := func(cs ...*ucdTable) bool { return pick(sel2, cs...) }
		r1 := func(cs ...*ucdTable) bool { return pick(selR, cs...) }
		r0 := func(cs ...*ucdTable) bool { return any(i, cs...) }
		l1RiOdd := false
		for j := 0; j < i; j++ {
			l1RiOdd = vfOr(l1RiOdd, vfAnd(sel1[j], riOdd[j]))
		}

		wb3 := vfAnd(text[i-1] == 0x0D, text[i] == 0x0A)
		wb3ab := vfOr(nl[i-1], nl[i])
		wb3c := vfAnd(text[i-1] == 0x200D, vfIsPic(text[i]))
		wb3d := vfAnd(isC(i-1, ucd.WordBreakWSegSpace), isC(i, ucd.WordBreakWSegSpace))
		wb4 := skip[i]
		wb5 := vfAnd(l1(ahl...), r0(ahl...))
		wb6 := vfAnd(l1(ahl...), vfAnd(r0(mid...), r1(ahl...)))
		wb7 := vfAnd(l2(ahl...), vfAnd(l1(mid...), r0(ahl...)))
		wb7a := vfAnd(l1(heb), r0(sq))
		wb7b := vfAnd(l1(heb), vfAnd(r0(dq), r1(heb)))
		wb7c := vfAnd(l2(heb), vfAnd(l1(dq), r0(heb)))
		wb8to10 := vfOr(vfAnd(l1(num), r0(num)), vfOr(vfAnd(l1(ahl...), r0(num)), vfAnd(l1(num), r0(ahl...))))
		wb11 := vfAnd(l2(num), vfAnd(l1(midN...), r0(num)))
		wb12 := vfAnd(l1(num), vfAnd(r0(midN...), r1(num)))
		wb13 := vfAnd(l1(kat), r0(kat))
		wb13a := vfAnd(vfOr(l1(lettersNumKat...), l1(enl)), r0(enl))
		wb13b := vfAnd(l1(enl), r0(lettersNumKat...))
		wb1516 := vfAnd(vfAnd(l1(ri), r0(ri)), l1RiOdd)
		noBreak := vfOr(vfOr(vfOr(wb3c, wb3d), vfOr(wb4, wb5)), vfOr(vfOr(vfOr(wb6, wb7), vfOr(wb7a, wb7b)), vfOr(vfOr(vfOr(wb7c, wb8to10), vfOr(wb11, wb12)), vfOr(vfOr(wb13, wb13a), vfOr(wb13b, wb1516)))))
		out[i] = vfAnd(!wb3, vfOr(wb3ab, !noBreak))
	}
	return out
}

// H-C06-word: the real Segmenter.Init against the UAX #29 word-boundary reference on every sequence of
// word-rule representatives of the bounded length.
func VfH_C06_word() {
	max := 3
	if vfThorough() {
		max = 4
	}
	reps := vfWordReps()
	n := 1 + vfChoice("textLen", max)
	text := make([]rune, n)
	for i := range text {
		text[i] = reps[vfInt("wordRep", 0, len(reps)-1)]
	}
	var seg Segmenter
	seg.Init(text)
	want := vfWordRef(text)
	for i := 0; i <= n; i++ {
		vfAssert((seg.attributes[i]&wordBoundary != 0) == want[i], "word boundary differs from UAX #29 (WB rules)")
	}
	vfCover("inner-nobreak", n >= 2 && !want[1])
	vfCover("inner-break", n >= 2 && want[1])
	vfReach("end")
}

// ---- H-C06-grapheme-long: grapheme rules on longer sequences over the grapheme-rule representatives
// (grapheme class x Extended_Pictographic), as H-C06-word does for the word rules.
type vfGraphemeKey struct {
	class *ucdTable
	pic   bool
}

func vfGraphemeReps() []rune {
	seen := map[vfGraphemeKey]bool{}
	var out []rune
	for _, r := range vfReps {
		k := vfGraphemeKey{ucd.LookupGraphemeBreakClass(r), vfIsPic(r)}
		if !seen[k] {
			seen[k] = true
			out = append(out, r)
		}
	}
	return out
}

func VfH_C06_grapheme_long() {
	max := 3
	if vfThorough() {
		max = 4
	}
	reps := vfGraphemeReps()
	n := 1 + vfChoice("textLen", max)
	text := make([]rune, n)
	for i := range text {
		text[i] = reps[vfInt("graphemeRep", 0, len(reps)-1)]
	}
	var seg Segmenter
	seg.Init(text)
	want := vfGraphemeRef(text)
	for i := 0; i <= n; i++ {
		vfAssert((seg.attributes[i]&graphemeBoundary != 0) == want[i], "grapheme boundary differs from UAX #29 (GB rules)")
	}
	vfCover("inner-nobreak", n >= 2 && !want[1])
	vfCover("inner-break", n >= 2 && want[1])
	vfReach("end")
}

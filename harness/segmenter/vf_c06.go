//go:build verif

package segmenter

import (
	ucd "github.com/go-text/typesetting/unicodedata"
)

// A symbolic text: every position is an arbitrary representative of the class partition computed by
// repgen from the current tables (vfReps): together they stand for every code point sequence of the length.
func vfText(name string, n int) []rune {
	t := make([]rune, n)
	for i := range t {
		t[i] = vfReps[vfInt(name, 0, len(vfReps)-1)]
	}
	return t
}

// ---- H-C06-iter: iterators over an ARBITRARY attribute array with the structural guarantees of
// computeBreakAttributes ([0] is no line break, [n] carries every flag).
func VfH_C06_iter() {
	max := 4
	if vfThorough() {
		max = 6
	}
	n := 1 + vfChoice("textLen", max)
	seg := Segmenter{text: make([]rune, n), attributes: make([]breakAttr, n+1)}
	for i := range seg.text {
		seg.text[i] = 'a' + rune(i)
	}
	for i := range seg.attributes {
		seg.attributes[i] = breakAttr(vfU8("attr") & 0x0F)
	}
	seg.attributes[0] = seg.attributes[0]&^lineBoundary&^mandatoryLineBoundary | graphemeBoundary | wordBoundary
	seg.attributes[n] |= lineBoundary | mandatoryLineBoundary | graphemeBoundary | wordBoundary
	for i := range seg.attributes {
		vfAssume(vfImplies(seg.attributes[i]&mandatoryLineBoundary != 0, seg.attributes[i]&lineBoundary != 0))
	}

	next := 0
	for it := seg.LineIterator(); it.Next(); {
		l := it.Line()
		vfAssert(l.Offset == next && len(l.Text) > 0, "LineIterator: segments are not consecutive and non-empty")
		next = l.Offset + len(l.Text)
		vfAssert(next <= n, "LineIterator: segment beyond the text")
		vfAssert(seg.attributes[next]&lineBoundary != 0, "LineIterator: segment ends where no line break is allowed")
		for k := l.Offset + 1; k < next; k++ {
			vfAssert(seg.attributes[k]&lineBoundary == 0, "LineIterator: segment spans a line break opportunity")
		}
		vfAssert(l.IsMandatoryBreak == (seg.attributes[next]&mandatoryLineBoundary != 0), "LineIterator: IsMandatoryBreak does not mirror the attribute")
		vfAssert(&l.Text[0] == &seg.text[l.Offset], "LineIterator: Text is not the sub-slice of the input")
	}
	vfAssert(next == n, "LineIterator: segments do not cover the text")

	next = 0
	for it := seg.GraphemeIterator(); it.Next(); {
		g := it.Grapheme()
		vfAssert(g.Offset == next && len(g.Text) > 0, "GraphemeIterator: segments are not consecutive and non-empty")
		next = g.Offset + len(g.Text)
		vfAssert(next <= n && seg.attributes[next]&graphemeBoundary != 0, "GraphemeIterator: segment ends where no boundary is")
		for k := g.Offset + 1; k < next; k++ {
			vfAssert(seg.attributes[k]&graphemeBoundary == 0, "GraphemeIterator: segment spans a boundary")
		}
	}
	vfAssert(next == n, "GraphemeIterator: segments do not cover the text")

	prevEnd := 0
	for it := seg.WordIterator(); it.Next(); {
		w := it.Word()
		vfAssert(w.Offset >= prevEnd && len(w.Text) > 0 && w.Offset+len(w.Text) <= n, "WordIterator: words overlap, are empty or leave the text")
		prevEnd = w.Offset + len(w.Text)
	}
	vfReach("end")
}

// ---- reference for UAX #29 grapheme cluster boundaries (rules GB3..GB13, GB999), written as a
// multi-pass over class arrays, branch-free.
func vfGraphemeRef(text []rune) []bool {
	n := len(text)
	is := func(i int, c *ucdTable) bool { return ucd.LookupGraphemeBreakClass(text[i]) == c }
	pic := make([]bool, n)
	for i := range text {
		pic[i] = vfIsPic(text[i])
	}
	out := make([]bool, n+1)
	out[0], out[n] = true, true
	// state for GB11 (ExtPict Extend* ZWJ x ExtPict) and GB12/13 (RI pairs), as prefix scans
	inPicExt := make([]bool, n) // text[..i] ends with ExtPict Extend*
	riOdd := make([]bool, n)    // number of consecutive RI ending at i is odd
	for i := 0; i < n; i++ {
		prevPicExt, prevOdd := false, false
		if i > 0 {
			prevPicExt, prevOdd = inPicExt[i-1], riOdd[i-1]
		}
		inPicExt[i] = vfOr(pic[i], vfAnd(prevPicExt, is(i, ucd.GraphemeBreakExtend)))
		riOdd[i] = vfAnd(is(i, ucd.GraphemeBreakRegional_Indicator), !prevOdd)
	}
	for i := 1; i < n; i++ {
		a, b := i-1, i
		ctl := func(k int) bool {
			return vfOr(vfOr(is(k, ucd.GraphemeBreakControl), is(k, ucd.GraphemeBreakCR)), is(k, ucd.GraphemeBreakLF))
		}
		gb3 := vfAnd(is(a, ucd.GraphemeBreakCR), is(b, ucd.GraphemeBreakLF))
		gb45 := vfOr(ctl(a), ctl(b))
		gb6 := vfAnd(is(a, ucd.GraphemeBreakL), vfOr(vfOr(is(b, ucd.GraphemeBreakL), is(b, ucd.GraphemeBreakV)), vfOr(is(b, ucd.GraphemeBreakLV), is(b, ucd.GraphemeBreakLVT))))
		gb7 := vfAnd(vfOr(is(a, ucd.GraphemeBreakLV), is(a, ucd.GraphemeBreakV)), vfOr(is(b, ucd.GraphemeBreakV), is(b, ucd.GraphemeBreakT)))
		gb8 := vfAnd(vfOr(is(a, ucd.GraphemeBreakLVT), is(a, ucd.GraphemeBreakT)), is(b, ucd.GraphemeBreakT))
		gb9 := vfOr(is(b, ucd.GraphemeBreakExtend), is(b, ucd.GraphemeBreakZWJ))
		gb9a := is(b, ucd.GraphemeBreakSpacingMark)
		gb9b := is(a, ucd.GraphemeBreakPrepend)
		beforeZWJ := false
		if a > 0 {
			beforeZWJ = inPicExt[a-1]
		}
		gb11 := vfAnd(vfAnd(is(a, ucd.GraphemeBreakZWJ), beforeZWJ), pic[b])
		gb1213 := vfAnd(riOdd[a], is(b, ucd.GraphemeBreakRegional_Indicator))
		noBreak := vfOr(vfOr(vfOr(gb6, gb7), vfOr(gb8, gb9)), vfOr(vfOr(gb9a, gb9b), vfOr(gb11, gb1213)))
		// GB3 first, then GB4/GB5 force a break, then the no-break rules, else GB999 break
		out[i] = vfAnd(!gb3, vfOr(gb45, !noBreak))
	}
	return out
}

// H-C06-grapheme: the real Segmenter.Init against the UAX #29 grapheme reference on every class sequence of the bounded length.
func VfH_C06_grapheme() {
	max := 2
	if vfThorough() {
		max = 3
	}
	n := 1 + vfChoice("textLen", max)
	text := vfText("rep", n)
	var seg Segmenter
	seg.Init(text)
	want := vfGraphemeRef(text)
	for i := 0; i <= n; i++ {
		vfAssert((seg.attributes[i]&graphemeBoundary != 0) == want[i], "grapheme boundary differs from UAX #29 (GB rules)")
	}
	vfCover("inner-nobreak", n >= 2 && !want[1])
	vfCover("inner-break", n >= 2 && want[1])
	vfReach("end")
}

// H-C06-mandatory: mandatory line breaks (LB4, LB5) and the structural rules LB2/LB3:
// a mandatory break before position i iff the previous rune is BK, LF, NL, or CR not followed by LF.
func VfH_C06_mandatory() {
	max := 2
	if vfThorough() {
		max = 3
	}
	n := 1 + vfChoice("textLen", max)
	text := vfText("rep", n)
	var seg Segmenter
	seg.Init(text)
	lb := func(i int, c *ucdTable) bool { return ucd.LookupLineBreakClass(text[i]) == c }
	vfAssert(seg.attributes[0]&lineBoundary == 0, "LB2: break allowed at the start of text")
	vfAssert(seg.attributes[n]&mandatoryLineBoundary != 0 && seg.attributes[n]&lineBoundary != 0, "LB3: no mandatory break at the end of text")
	for i := 1; i < n; i++ {
		want := vfOr(vfOr(lb(i-1, ucd.BreakBK), vfOr(lb(i-1, ucd.BreakLF), lb(i-1, ucd.BreakNL))), vfAnd(lb(i-1, ucd.BreakCR), !lb(i, ucd.BreakLF)))
		got := seg.attributes[i]&mandatoryLineBoundary != 0
		vfAssert(got == want, "mandatory line break differs from UAX #14 LB4/LB5")
		vfAssert(vfImplies(got, seg.attributes[i]&lineBoundary != 0), "mandatory break without line break opportunity")
		vfAssert(vfImplies(vfAnd(lb(i-1, ucd.BreakCR), lb(i, ucd.BreakLF)), seg.attributes[i]&lineBoundary == 0), "LB5: break inside CR LF")
	}
	vfCover("mandatory", n >= 2 && seg.attributes[1]&mandatoryLineBoundary != 0)
	vfReach("end")
}

// H-C06-reuse (also C13): Init(t1); Init(t2) on one Segmenter equals a fresh Init(t2).
func VfH_C06_reuse() { vfReuse(1, 1) }

// H-C13-seg: the same comparison at the smaller bound used by the C13 check
func VfH_C13_seg() { vfReuse(1, 1) }

func vfReuse(max1, max2 int) {
	if vfThorough() {
		max1, max2 = 2, 2
	}
	n1, n2 := vfChoice("len1", max1+1), vfChoice("len2", max2+1)
	t1, t2 := vfText("rep1", n1), vfText("rep2", n2)
	var used, fresh Segmenter
	used.Init(t1)
	used.Init(t2)
	fresh.Init(t2)
	vfAssert(len(used.attributes) == len(fresh.attributes) && len(used.text) == len(fresh.text), "reused Segmenter: different lengths")
	for i := range fresh.attributes {
		vfAssert(used.attributes[i] == fresh.attributes[i], "reused Segmenter returns different attributes than a fresh one")
	}
	for i := range fresh.text {
		vfAssert(used.text[i] == fresh.text[i], "reused Segmenter holds a different text")
	}
	vfReach("end")
}

//go:build verif

package opentype

import "bytes"

// ---- C09: opening arbitrary bytes as a font / collection ----
//
// H-C09-containers: NewLoaders (sfnt, TTC, dfont, WOFF headers and table directories) on an arbitrary byte
// string whose first four bytes are case-split over the container signatures; for every loader returned,
// Tables() and RawTable of every listed tag are total too.
func VfH_C09_containers() {
	magics := [...][4]byte{
		{0x00, 0x01, 0x00, 0x00}, // TrueType
		{'O', 'T', 'T', 'O'},
		{'t', 't', 'c', 'f'},
		{0x00, 0x00, 0x01, 0x00}, // dfont
		{'w', 'O', 'F', 'F'},
		{'t', 'r', 'u', 'e'},
	}
	max := 32
	if vfThorough() {
		max = 48
	}
	m := magics[vfChoice("magic", len(magics))]
	n := vfInt("len", 4, max)
	data := vfBytes("file", n, max)
	vfAssume(data[0] == m[0] && data[1] == m[1] && data[2] == m[2] && data[3] == m[3])
	if m[0] == 't' && m[1] == 't' && n >= 12 {
		// collections: at most 2 fonts announced (the count drives a loop of that many directory parses)
		vfAssume(data[8] == 0 && data[9] == 0 && data[10] == 0 && data[11] <= 2)
	}
	lds, err := NewLoaders(bytes.NewReader(data))
	if err == nil {
		for _, ld := range lds {
			for _, tag := range ld.Tables() {
				ld.RawTable(tag)
			}
		}
	}
	vfCover("accepted", err == nil)
	vfCover("rejected", err != nil)
	vfReach("end")
}

//go:build verif

package opentype

import "bytes"

// reference checksum: sum of big-endian words of the zero-padded body (OpenType spec, "Calculating Checksums")
func vfRefChecksum(b []byte) uint32 {
	var sum uint32
	for i := 0; i < len(b); i += 4 {
		var w uint32
		for j := 0; j < 4; j++ {
			w <<= 8
			if i+j < len(b) {
				w |= uint32(b[i+j])
			}
		}
		sum += w
	}
	return sum
}

func vfBE16(b []byte, o int) int { return int(b[o])<<8 | int(b[o+1]) }
func vfBE32(b []byte, o int) uint32 {
	return uint32(b[o])<<24 | uint32(b[o+1])<<16 | uint32(b[o+2])<<8 | uint32(b[o+3])
}

const vfC19Back = 8 // backing array per table: up to vfC19MaxLen content bytes + spare capacity

func vfC19Tables(n, maxLen int) (tabs []Table, snaps [][]byte) {
	tabs = make([]Table, n)
	snaps = make([][]byte, n)
	for i := range tabs {
		L := vfChoice("len", maxLen+1) // case-split: every length 0..maxLen is its own solver case
		b := vfBytesCap("content", L, vfC19Back, vfC19Back)
		snap := make([]byte, vfC19Back)
		copy(snap, b[:vfC19Back])
		snaps[i] = snap
		tabs[i] = Table{Tag: Tag(vfU32("tag")), Content: b}
		if i > 0 {
			vfAssume(tabs[i-1].Tag < tabs[i].Tag) // documented precondition: sorted, distinct
		}
	}
	return
}

func vfC19Check(n int, tabs []Table, snaps [][]byte) {
	lens := make([]int, n)
	tags := make([]Tag, n)
	for i := range tabs {
		lens[i] = len(tabs[i].Content)
		tags[i] = tabs[i].Tag
	}

	out := WriteTTF(tabs) // real code

	// 1. caller's buffers untouched (including spare capacity behind each slice)
	for i := range tabs {
		vfAssert(len(tabs[i].Content) == lens[i] && tabs[i].Tag == tags[i], "caller table header modified")
		full := tabs[i].Content[:vfC19Back]
		for k := 0; k < vfC19Back; k++ {
			vfAssert(full[k] == snaps[i][k], "caller buffer modified by WriteTTF")
		}
	}

	// 2. header
	total := 12 + 16*n
	for i := range lens {
		total += lens[i]
	}
	vfAssert(len(out) == total, "file length")
	vfAssert(vfBE32(out, 0) == 0x00010000, "sfnt version")
	vfAssert(vfBE16(out, 4) == n, "numTables")
	if n > 0 {
		p, l := 1, 0
		for p*2 <= n {
			p *= 2
			l++
		}
		vfAssert(vfBE16(out, 6) == 16*p, "searchRange")
		vfAssert(vfBE16(out, 8) == l, "entrySelector")
		vfAssert(vfBE16(out, 10) == 16*n-16*p, "rangeShift")
	}

	// 3. directory
	off := 12 + 16*n
	for i := 0; i < n; i++ {
		e := 12 + 16*i
		vfAssert(Tag(vfBE32(out, e)) == tags[i], "directory tag/order")
		vfAssert(vfBE32(out, e+4) == vfRefChecksum(snaps[i][:lens[i]]), "table checksum")
		vfAssert(int(vfBE32(out, e+8)) == off, "table offset")
		vfAssert(int(vfBE32(out, e+12)) == lens[i], "table length")
		for k := 0; k < lens[i]; k++ {
			vfAssert(out[off+k] == snaps[i][k], "table content in file")
		}
		off += lens[i]
	}

	// 4. read back through the real loader
	ld, err := NewLoader(bytes.NewReader(out))
	vfAssert(err == nil, "written file is rejected by NewLoader")
	got := ld.Tables()
	vfAssert(len(got) == n, "loader table count")
	for i := 0; i < n; i++ {
		vfAssert(got[i] == tags[i], "loader tags")
		raw, err := ld.RawTable(tags[i])
		vfAssert(err == nil, "RawTable error")
		vfAssert(len(raw) == lens[i], "RawTable length")
		for k := 0; k < lens[i]; k++ {
			vfAssert(raw[k] == snaps[i][k], "RawTable content")
		}
	}
	vfCover("odd-length", n > 0 && lens[0]%4 == 1)
	vfReach("end")
}

// H-C19-roundtrip: 0..3 tables, symbolic lengths 0..5, symbolic content, tags and spare capacity.
func VfH_C19_roundtrip() {
	n := vfChoice("ntables", 4)
	tabs, snaps := vfC19Tables(n, 5)
	vfC19Check(n, tabs, snaps)
}

//go:build verif

package tables

// parent buffers (a few parsers take the enclosing table as second argument): an independent arbitrary buffer
func vfC09Parent(src []byte, bound int) []byte {
	n := vfInt("parentLen", 0, bound)
	return vfBytes("parent", n, bound)
}

func vfC09Uint32s(bound int) []uint32 {
	n := 1 + vfChoice("nOffsets", 3) // ParseLoca always returns numGlyphs+1 >= 1 offsets
	out := make([]uint32, n)
	for i := range out {
		out[i] = vfU32("offset")
	}
	return out
}

func vfC09Bound() int {
	if vfThorough() {
		return 40
	}
	return 20
}

// H-C09-parse: every generated table parser is total on an arbitrary byte string of the bounded
// length with arbitrary non-negative count arguments: no panic (index, slice, negative or huge make),
// every loop terminates within the unwinding bound, and the reported read count stays inside the input.
func VfH_C09_parse() {
	list := vfC09Quick
	if vfThorough() {
		list = vfC09Thorough
	}
	k := list[vfChoice("parser", len(list))]
	bound := vfC09Bound()
	n := vfInt("len", 0, bound)
	src := vfBytes("src", n, bound)
	read, err, has := vfC09Call(k, src, bound)
	if err == nil && has {
		vfAssert(0 <= read && read <= len(src), "parser reports a read count outside its input: "+vfC09Names[k])
	}
	vfCover("accepted", err == nil)
	vfCover("rejected", err != nil)
	vfReach("end")
}

// H-C09-glyph-simple: ParseGlyph on an arbitrary byte string that announces a simple glyph with 0..2
// contours whose end points are below 3 (the count fields are case-split so that the flag/coordinate
// decoding loops - flag repeats, short/long/same vectors - are explored to completion; everything else,
// including the instruction length and all flags and coordinates, is arbitrary).
func VfH_C09_glyph_simple() {
	max := 20
	if vfThorough() {
		max = 26
	}
	nc := vfChoice("contours", 3)
	n := vfInt("len", 10, max)
	src := vfBytes("glyph", n, max)
	vfAssume(src[0] == 0 && int(src[1]) == nc)
	for i := 0; i < nc; i++ {
		if 11+2*i < n {
			vfAssume(src[10+2*i] == 0 && src[11+2*i] < 3)
		}
	}
	_, read, err := ParseGlyph(src)
	if err == nil {
		vfAssert(0 <= read && read <= len(src), "ParseGlyph reports a read count outside its input")
	}
	vfCover("accepted", err == nil)
	vfCover("rejected", err != nil)
	vfReach("end")
}

// H-C09-varstore: an item variation store as the parser can return it (HVAR / VVAR / MVAR / GDEF / BASE share
// it: region list with its own axis count, item variation data with UNCHECKED region indexes and delta rows of
// regionIndexCount entries), then queried: GetDelta for an arbitrary delta-set index and coordinates of any
// length 0..3 must be total (the number of coordinates comes from 'fvar' or from the caller of SetCoords).
func VfH_C09_varstore() {
	var store ItemVarStore
	store.format = 1
	axisCount := vfChoice("axisCount", 3)
	nRegions := vfChoice("nRegions", 3)
	store.VariationRegionList.axisCount = uint16(axisCount)
	for i := 0; i < nRegions; i++ {
		var reg VariationRegion
		for a := 0; a < axisCount; a++ {
			reg.RegionAxes = append(reg.RegionAxes, RegionAxisCoordinates{StartCoord: Coord(vfI16("start")), PeakCoord: Coord(vfI16("peak")), EndCoord: Coord(vfI16("end"))})
		}
		store.VariationRegionList.VariationRegions = append(store.VariationRegionList.VariationRegions, reg)
	}
	nIdx := vfChoice("regionIndexCount", 3)
	data := ItemVariationData{itemCount: 1, regionIndexCount: uint16(nIdx)}
	row := make([]int16, nIdx)
	for i := 0; i < nIdx; i++ {
		data.RegionIndexes = append(data.RegionIndexes, vfU16("regionIndex"))
		row[i] = vfI16("delta")
	}
	data.DeltaSets = [][]int16{row}
	store.ItemVariationDatas = []ItemVariationData{data}

	nc := vfChoice("nCoords", 4)
	coords := make([]Coord, nc)
	for i := range coords {
		coords[i] = Coord(vfI16("coord"))
	}
	store.GetDelta(VariationStoreIndex{DeltaSetOuter: vfU16("outer"), DeltaSetInner: vfU16("inner")}, coords)
	vfReach("end")
}

// H-C09-cblc: the bitmap location table needs more than the 20 (40) bytes H-C09-parse explores: one strike
// record (48 bytes) and its index subtable array. The counts are case-split (one strike, at most one index
// subtable), every offset, glyph range and format field is arbitrary.
func VfH_C09_cblc() {
	lens := [...]int{56, 64, 72, 80, 88, 96}
	nl := 3
	if vfThorough() {
		nl = 6
	}
	n := lens[vfChoice("len", nl)]
	src := vfBytes("cblc", n, n)
	vfAssume(src[4] == 0 && src[5] == 0 && src[6] == 0 && src[7] == 1)        // numSizes = 1
	vfAssume(src[16] == 0 && src[17] == 0 && src[18] == 0 && src[19] <= 1) // numberOfIndexSubTables <= 1
	_, _, err := ParseCBLC(src)
	vfCover("accepted", err == nil)
	vfCover("rejected", err != nil)
	vfReach("end")
}

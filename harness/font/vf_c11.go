//go:build verif

package font

import "github.com/go-text/typesetting/font/opentype/tables"

type vfPair struct {
	r rune
	g GID
}

// vfCollect drives the real iterator, with an explicit bound on the number of items.
func vfCollect(cm Cmap, max int) []vfPair {
	var out []vfPair
	it := cm.Iter()
	for it.Next() {
		vfAssert(len(out) < max, "iterator yields more characters than the map defines")
		r, g := it.Char()
		out = append(out, vfPair{r, g})
	}
	return out
}

// vfIterVsLookup: (a) every enumerated pair is what Lookup returns; (b) runes strictly increasing,
// hence each rune once; (c) for an arbitrary rune q, a successful Lookup is enumerated.
func vfIterVsLookup(cm Cmap, max int) {
	pairs := vfCollect(cm, max)
	for i, p := range pairs {
		g, ok := cm.Lookup(p.r)
		vfAssert(ok, "Iter yields a rune for which Lookup reports no glyph")
		vfAssert(g == p.g, "Iter and Lookup disagree on the glyph of a rune")
		if i > 0 {
			vfAssert(pairs[i-1].r < p.r, "Iter yields a rune twice / out of order")
		}
	}
	q := vfRune("q")
	gq, okq := cm.Lookup(q)
	found := false
	for _, p := range pairs {
		found = vfOr(found, vfAnd(p.r == q, p.g == gq))
	}
	if okq {
		vfAssert(found, "Lookup succeeds for a rune that Iter does not enumerate")
	}
	vfCover("hit", okq)
	vfCover("miss", !okq)
}

// vfRangesVsLookup: the RuneRanges fast path (used for font coverage) contains q iff Lookup maps q.
func vfRangesVsLookup(cm Cmap, rr CmapRuneRanger) {
	q := vfRune("q2")
	_, ok := cm.Lookup(q)
	in := false
	for _, ra := range rr.RuneRanges(nil) {
		in = vfOr(in, vfAnd(ra[0] <= q, q <= ra[1]))
	}
	vfAssert(in == ok, "RuneRanges (coverage fast path) and Lookup disagree on whether a rune is mapped")
}

// vfMkCmap4: nseg data segments plus the 0xFFFF sentinel; segment sizes are case-split, everything else
// symbolic; segments sorted and disjoint as OpenType requires.
func vfMkCmap4(nseg, maxSize int) (cmap4, int) {
	cm := make(cmap4, nseg+1)
	total := 1
	prevEnd := -1
	for i := 0; i < nseg; i++ {
		size := 1 + vfChoice("size", maxSize)
		start := vfU16("start")
		vfAssume(int(start) > prevEnd)
		vfAssume(int(start)+size-1 < 0xFFFF)
		end := start + uint16(size-1)
		e := cmapEntry16{start: start, end: end, delta: vfU16("delta")}
		if vfChoice("useIndexes", 2) == 1 {
			e.indexes = make([]tables.GlyphID, size)
			for k := range e.indexes {
				e.indexes[k] = vfU16("glyphIndex")
			}
			vfKnown("C11-cmap4-zero-index", vfHasZero(e.indexes))
		}
		cm[i] = e
		prevEnd = int(end)
		total += size
	}
	cm[nseg] = cmapEntry16{start: 0xFFFF, end: 0xFFFF, delta: 1}
	return cm, total
}

func vfHasZero(xs []tables.GlyphID) bool {
	z := false
	for _, x := range xs {
		z = vfOr(z, x == 0)
	}
	return z
}

func VfH_C11_cmap4() {
	maxSeg, maxSize := 2, 2
	if vfThorough() {
		maxSeg, maxSize = 2, 3
	}
	nseg := vfChoice("nseg", maxSeg+1)
	cm, total := vfMkCmap4(nseg, maxSize)
	vfIterVsLookup(cm, total)
	vfRangesVsLookup(cm, cm)
	vfReach("end")
}

func vfMkGroups(n, maxSize int) ([]tables.SequentialMapGroup, int) {
	gs := make([]tables.SequentialMapGroup, n)
	total := 0
	var prevEnd uint32
	for i := range gs {
		size := 1 + vfChoice("size", maxSize)
		start := vfU32("start")
		vfAssume(start <= 0x10FFFF)
		if i > 0 {
			vfAssume(start > prevEnd)
		}
		end := start + uint32(size-1)
		gs[i] = tables.SequentialMapGroup{StartCharCode: start, EndCharCode: end, StartGlyphID: vfU32("glyph")}
		prevEnd = end
		total += size
	}
	return gs, total
}

func VfH_C11_cmap12() {
	max := 2
	if vfThorough() {
		max = 3
	}
	n := vfChoice("ngroups", max+1)
	gs, total := vfMkGroups(n, 3)
	cm := cmap12(gs)
	vfIterVsLookup(cm, total)
	vfRangesVsLookup(cm, cm)
	vfReach("end")
}

func VfH_C11_cmap13() {
	max := 2
	if vfThorough() {
		max = 3
	}
	n := vfChoice("ngroups", max+1)
	gs, total := vfMkGroups(n, 3)
	cm := cmap13(gs)
	vfIterVsLookup(cm, total)
	vfRangesVsLookup(cm, cm)
	vfReach("end")
}

func VfH_C11_cmap6or10() {
	max := 3
	if vfThorough() {
		max = 5
	}
	n := vfChoice("nentries", max+1)
	es := make([]tables.GlyphID, n)
	for i := range es {
		es[i] = vfU16("glyph")
	}
	first := vfRune("firstCode")
	vfAssume(first >= 0 && first <= 0x10FFFF)
	cm := cmap6or10{entries: es, firstCode: first}
	vfIterVsLookup(cm, n)
	if n > 0 {
		vfRangesVsLookup(cm, &cm)
	}
	vfReach("end")
}

// H-C11-remap: the compatibility wrappers ProcessCmap puts around a Microsoft symbol subtable
// (remaperSymbol, remaperPUASimp, remaperPUATrad) over a symbolic format-4 map: enumeration vs lookup.
// Known finding: the wrappers only remap Lookup; Iter (hence the font coverage) enumerates the
// underlying subtable, so a rune that is only reachable through the remapping is mapped but not enumerated.
func VfH_C11_remap() {
	wrapper := vfChoice("wrapper", 3)
	base, total := vfMkCmap4(1+vfChoice("nseg", 2), 2)
	var cm Cmap
	switch wrapper {
	case 0:
		cm = remaperSymbol{base}
	case 1:
		cm = remaperPUASimp{base}
	case 2:
		cm = remaperPUATrad{base}
	}
	pairs := vfCollect(cm, total)
	for i, p := range pairs {
		g, ok := cm.Lookup(p.r)
		vfAssert(ok, "Iter yields a rune for which Lookup reports no glyph")
		vfAssert(g == p.g, "Iter and Lookup disagree on the glyph of a rune")
		if i > 0 {
			vfAssert(pairs[i-1].r < p.r, "Iter yields a rune twice / out of order")
		}
	}
	q := vfRune("q")
	vfAssume(0 <= q && q <= 0x10FFFF)
	if wrapper != 0 {
		// the Arabic PUA tables are long case lists: a window of the remapped range keeps the case split small
		hi := rune(0x3F)
		if vfThorough() {
			hi = 0xFF
		}
		vfAssume(0x20 <= q && q <= hi)
	}
	gq, okq := cm.Lookup(q)
	_, direct := base.Lookup(q)
	found := false
	for _, p := range pairs {
		found = vfOr(found, vfAnd(p.r == q, p.g == gq))
	}
	vfCover("remapped", vfAnd(okq, !direct))
	vfCover("direct", vfAnd(okq, direct))
	vfAssert(vfImplies(vfAnd(okq, direct), found), "Lookup succeeds for a rune that Iter does not enumerate")
	vfKnown("C11-remapped-runes-not-enumerated", vfAnd(okq, vfAnd(!direct, !found)))
	vfAssert(vfImplies(vfAnd(okq, !direct), found), "Lookup succeeds for a rune that Iter does not enumerate")
	vfReach("end")
}

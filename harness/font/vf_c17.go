//go:build verif

package font

import (
	"bytes"

	ot "github.com/go-text/typesetting/font/opentype"
	"github.com/go-text/typesetting/font/opentype/tables"
)

// ---- C17: a parsed font can be shared: write-set confinement ----
//
// Interleavings are not explored. The solver decides a schedule-independent sufficient condition:
// no per-goroutine operation (face creation, variation/ppem changes, glyph and metric queries)
// stores into memory reachable from the shared *Font or into any package-level variable. If no shared
// location is ever written, every pair of accesses is read/read: no data race under any schedule,
// and each goroutine computes what it computes alone.

func vfC17Use(f *Font, fewGlyphs bool) {
	face := NewFace(f)
	nGlyphs := f.nGlyphs
	switch vfChoice("settings", 4) {
	case 1:
		face.SetPpem(uint16(vfInt("ppem", 0, 64)), uint16(vfInt("ppem", 0, 64)))
	case 2:
		face.SetVariations([]Variation{{Tag: ot.MustNewTag("wght"), Value: float32(200 + 100*vfChoice("wght", 8))}})
	case 3:
		coords := make([]tables.Coord, len(f.fvar))
		for i := range coords {
			coords[i] = tables.Coord(int16(vfChoice("coord", 3)-1) << 13)
		}
		face.SetCoords(coords)
	}
	r := vfRune("rune")
	g, _ := face.NominalGlyph(r)
	_ = g
	gid := GID(vfInt("gid", 0, nGlyphs+1))
	if fewGlyphs {
		// charstring interpretation on a symbolic glyph index does not scale: a handful of glyph ids, case-split
		gid = [...]GID{0, 1, 2, GID(nGlyphs - 1), GID(nGlyphs)}[vfChoice("gidChoice", 5)]
	}
	switch vfChoice("query", 8) {
	case 0:
		face.HorizontalAdvance(gid)
	case 1:
		face.VerticalAdvance(gid)
	case 2:
		face.GlyphExtents(gid)
		face.GlyphExtents(gid) // second call goes through the per-face extents cache
	case 3:
		face.GlyphData(GID(vfConcrete(int(gid))))
	case 4:
		face.GlyphName(gid)
	case 5:
		face.FontHExtents()
		face.FontVExtents()
	case 6:
		face.LineMetric(LineMetric(vfInt("metric", 0, 12)))
	case 7:
		face.GlyphVOrigin(gid)
	}
	// a second face of the same font, as another goroutine would create
	other := NewFace(f)
	other.HorizontalAdvance(gid)
	vfReach("end")
}

// H-C17-confine: parse a real corpus font inside the interpreter, freeze everything that exists, then run the
// per-goroutine API with symbolic arguments: any store into a frozen object is a violation.
func VfH_C17_confine() {
	ld, err := ot.NewLoader(bytes.NewReader(vfFontBytes))
	vfAssume(err == nil)
	f, err := NewFont(ld)
	vfAssume(err == nil)
	vfFreezeAll()
	vfC17Use(f, false)
}

// H-C17-confine-cff: the same with a static CFF ('OTTO') font: the extents, outlines and names then run
// through the charstring interpreter and the CFF name tables.
func VfH_C17_confine_cff() {
	ld, err := ot.NewLoader(bytes.NewReader(vfCffFontBytes))
	vfAssume(err == nil)
	f, err := NewFont(ld)
	vfAssume(err == nil)
	vfCover("is-cff", f.cff != nil)
	vfFreezeAll()
	vfC17Use(f, true)
}

//go:build verif

package font

import (
	ot "github.com/go-text/typesetting/font/opentype"
	"github.com/go-text/typesetting/font/opentype/tables"
)

func vfArb(name string, max int) []byte {
	n := vfInt(name+"Len", 0, max)
	return vfBytes(name, n, max)
}

// H-C09-font-hvtmx: loadHVtmx (the glue NewFont uses for hmtx/vmtx) on arbitrary hhea/hmtx bytes and any glyph count.
func VfH_C09_font_hvtmx() {
	hhea := vfBytes("hhea", 36, 36) // a complete hhea table with arbitrary content
	hmtx := vfArb("hmtx", 12)
	numGlyphs := vfInt("numGlyphs", 0, 4)
	_, m, err := loadHVtmx(hhea, hmtx, numGlyphs)
	if err == nil {
		// query-time accessor on the parsed value: total for any glyph id
		g := tables.GlyphID(vfU16("gid"))
		m.Advance(g)
	}
	vfCover("accepted", err == nil)
	vfCover("rejected", err != nil)
	vfReach("end")
}

// H-C09-font-glyf: ParseLoca chained with ParseGlyf exactly as NewFont chains them.
func VfH_C09_font_glyf() {
	numGlyphs := vfChoice("numGlyphs", 3)
	isLong := vfChoice("longLoca", 2) == 1
	loca := vfArb("loca", 12)
	glyf := vfArb("glyf", 14)
	offsets, err := tables.ParseLoca(loca, numGlyphs, isLong)
	if err == nil {
		_, err = tables.ParseGlyf(glyf, offsets)
	}
	vfCover("rejected", err != nil)
	vfReach("end")
}

// H-C09-font-cmap4: newCmap4 on an arbitrary parsed format-4 subtable (2 segments), then Lookup of any rune.
func VfH_C09_font_cmap4() {
	nseg := 1 + vfChoice("segCount", 2)
	var cm tables.CmapSubtable4
	cm.EndCode, cm.StartCode, cm.IdDelta, cm.IdRangeOffsets = make([]uint16, nseg), make([]uint16, nseg), make([]uint16, nseg), make([]uint16, nseg)
	for i := 0; i < nseg; i++ {
		cm.StartCode[i], cm.EndCode[i] = vfU16("start"), vfU16("end")
		vfAssume(int(cm.EndCode[i])-int(cm.StartCode[i]) < 3 || cm.StartCode[i] > cm.EndCode[i]) // small or inverted segments
		cm.IdDelta[i], cm.IdRangeOffsets[i] = vfU16("delta"), vfU16("rangeOffset")
	}
	cm.GlyphIDArray = vfArb("glyphIdArray", 8)
	c4, err := newCmap4(cm)
	if err == nil {
		c4.Lookup(vfRune("r"))
	}
	vfCover("accepted", err == nil)
	vfReach("end")
}

// H-C09-font-avar: coordinate normalisation with an ARBITRARY 'avar' table next to an 'fvar' table of
// 0..2 axes (the two tables are parsed independently by NewFont): NormalizeVariations / SetVariations must be
// total for every number of segment maps and every map content.
func VfH_C09_font_avar() {
	nAxes := vfChoice("nAxes", 3)
	var ft Font
	for i := 0; i < nAxes; i++ {
		ft.fvar = append(ft.fvar, tables.VariationAxisRecord{Tag: ot.MustNewTag("wght"), Minimum: 100, Default: 400, Maximum: 900})
	}
	nMaps := vfChoice("nMaps", 4)
	for i := 0; i < nMaps; i++ {
		var sm tables.SegmentMaps
		np := vfChoice("nPairs", 3)
		for j := 0; j < np; j++ {
			sm.AxisValueMaps = append(sm.AxisValueMaps, tables.AxisValueMap{FromCoordinate: tables.Coord(vfI16("from")), ToCoordinate: tables.Coord(vfI16("to"))})
		}
		ft.avar.AxisSegmentMaps = append(ft.avar.AxisSegmentMaps, sm)
	}
	grid := [...]float32{0, 100, 250, 400, 650, 900, 1000}
	coords := make([]float32, nAxes)
	for i := range coords {
		coords[i] = grid[vfChoice("coord", len(grid))]
	}
	ft.NormalizeVariations(coords)
	face := NewFace(&ft)
	face.SetVariations([]Variation{{Tag: ot.MustNewTag("wght"), Value: grid[vfChoice("value", len(grid))]}})
	vfCover("mapped", nMaps > 0 && nAxes > 0)
	vfReach("end")
}

// H-C09-font-tuple: tupleVariation.calculateScalar (gvar / cvar interpolation factor) with the peak and
// intermediate tuples of the 'gvar' table (its own axis count) against coordinates whose length comes from
// 'fvar' or from the caller (Face.SetCoords): every combination of lengths and values must be total.
func VfH_C09_font_tuple() {
	nCoords := vfChoice("nCoords", 4)
	nPeak := vfChoice("nPeak", 4)
	coords := make([]VarCoord, nCoords)
	for i := range coords {
		coords[i] = VarCoord(vfI16("coord"))
	}
	var t tupleVariation
	mk := func(n int, name string) []tables.Coord {
		out := make([]tables.Coord, n)
		for i := range out {
			out[i] = tables.Coord(vfI16(name))
		}
		return out
	}
	var shared [][]VarCoord
	var sharedIdx []int
	switch vfChoice("peakKind", 3) {
	case 0: // embedded peak tuple
		t.PeakTuple.Values = mk(nPeak, "peak")
	case 1: // shared tuple 0, no cached axis
		shared = [][]VarCoord{mk(nPeak, "shared")}
		sharedIdx = []int{-1}
	case 2: // shared tuple 0 with a cached single active axis
		shared = [][]VarCoord{mk(nPeak, "shared")}
		sharedIdx = []int{vfInt("activeAxis", 0, 3)}
		vfAssume(sharedIdx[0] < nPeak) // computed by newGvar from the shared tuple itself
	}
	if vfBool("intermediate") {
		t.IntermediateTuples[0].Values = mk(nPeak, "start")
		t.IntermediateTuples[1].Values = mk(nPeak, "end")
	}
	t.calculateScalar(coords, shared, sharedIdx)
	vfReach("end")
}

// H-C09-font-composite: outlines, extents and advances of a composite glyph whose component record is
// arbitrary (flags, component glyph index, arguments): a 'glyf' table of two glyphs (0 = composite with one
// component, 1 = an empty glyph) read by the real ParseGlyf, then the glyf accessors of a face.
func VfH_C09_font_composite() {
	raw := []byte{0xFF, 0xFF, 0, 0, 0, 0, 0, 10, 0, 10, // numberOfContours -1, bounding box
		vfU8("flagsHi") & 0x01, vfU8("flagsLo") & 0x07, // component flags (no MORE_COMPONENTS, no scale, no instructions)
		vfU8("gidHi"), vfU8("gidLo"), vfU8("arg1"), vfU8("arg2")}
	if raw[11]&0x01 != 0 { // ARG_1_AND_2_ARE_WORDS
		raw = append(raw, vfU8("arg3"), vfU8("arg4"))
	}
	n := uint32(len(raw))
	glyf, err := tables.ParseGlyf(raw, []uint32{0, n, n})
	if err != nil {
		vfReach("end")
		return
	}
	ft := &Font{glyf: glyf, nGlyphs: 2}
	if vfBool("variable") {
		ft.fvar = fvar{{Tag: ot.MustNewTag("wght"), Minimum: 100, Default: 400, Maximum: 900}}
	}
	face := NewFace(ft)
	if len(ft.fvar) != 0 {
		face.SetCoords([]tables.Coord{tables.Coord(vfI16("coord"))})
	}
	gid := GID(vfChoice("glyph", 3))
	face.GlyphData(gid)
	face.GlyphExtents(gid)
	face.HorizontalAdvance(gid)
	face.VerticalAdvance(gid)
	vfCover("parsed", true)
	vfReach("end")
}

// H-C09-font-gvar-points: gvar.applyDeltasToPoints with tuple variations as parseGlyphVariationSerializedData
// can return them: explicit point numbers that are NOT checked against the glyph's point count, or "all
// points" deltas. The glyph has 1..3 outline points plus the 4 phantom points.
func VfH_C09_font_gvar_points() {
	nPoints := 1 + vfChoice("nPoints", 3)
	points := make([]contourPoint, nPoints+phantomCount)
	points[nPoints-1].isEndPoint = true
	var tv tupleVariation
	tv.PeakTuple.Values = []tables.Coord{1000}
	if vfBool("explicitPoints") {
		np := 1 + vfChoice("nNumbers", 2)
		for i := 0; i < np; i++ {
			tv.pointNumbers = append(tv.pointNumbers, vfU16("pointNumber"))
		}
		tv.deltas = make([]int16, 2*np)
	} else {
		// deltas for "all points": the loader sizes them with the same point count the query uses
		tv.deltas = make([]int16, 2*len(points))
	}
	for i := range tv.deltas {
		tv.deltas[i] = int16(1 + i%2) // the values do not matter for totality
	}
	g := gvar{variations: [][]tupleVariation{{tv}}}
	g.applyDeltasToPoints(0, []VarCoord{1000}, points)
	vfReach("end")
}

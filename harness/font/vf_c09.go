//go:build verif

package font

import (
	"github.com/go-text/typesetting/font/opentype/tables"
)

func vfArb(name string, max int) []byte {
	n := vfInt(name+"Len", 0, max)
	return vfBytes(name, n, max)
}

// H-C09-font-hvtmx: loadHVtmx (the glue NewFont uses for hmtx/vmtx) on arbitrary hhea/hmtx bytes and any glyph count.
func VfH_C09_font_hvtmx() {
	hhea := vfBytes("hhea", 36, 36) // a complete hhea table with arbitrary content
	hmtx := vfArb("hmtx", 12)
	numGlyphs := vfInt("numGlyphs", 0, 4)
	_, m, err := loadHVtmx(hhea, hmtx, numGlyphs)
	if err == nil {
		// query-time accessor on the parsed value: total for any glyph id
		g := tables.GlyphID(vfU16("gid"))
		m.Advance(g)
	}
	vfCover("accepted", err == nil)
	vfCover("rejected", err != nil)
	vfReach("end")
}

// H-C09-font-glyf: ParseLoca chained with ParseGlyf exactly as NewFont chains them.
func VfH_C09_font_glyf() {
	numGlyphs := vfChoice("numGlyphs", 3)
	isLong := vfChoice("longLoca", 2) == 1
	loca := vfArb("loca", 12)
	glyf := vfArb("glyf", 14)
	offsets, err := tables.ParseLoca(loca, numGlyphs, isLong)
	if err == nil {
		_, err = tables.ParseGlyf(glyf, offsets)
	}
	vfCover("rejected", err != nil)
	vfReach("end")
}

// H-C09-font-cmap4: newCmap4 on an arbitrary parsed format-4 subtable (2 segments), then Lookup of any rune.
func VfH_C09_font_cmap4() {
	nseg := 1 + vfChoice("segCount", 2)
	var cm tables.CmapSubtable4
	cm.EndCode, cm.StartCode, cm.IdDelta, cm.IdRangeOffsets = make([]uint16, nseg), make([]uint16, nseg), make([]uint16, nseg), make([]uint16, nseg)
	for i := 0; i < nseg; i++ {
		cm.StartCode[i], cm.EndCode[i] = vfU16("start"), vfU16("end")
		vfAssume(int(cm.EndCode[i])-int(cm.StartCode[i]) < 3 || cm.StartCode[i] > cm.EndCode[i]) // small or inverted segments
		cm.IdDelta[i], cm.IdRangeOffsets[i] = vfU16("delta"), vfU16("rangeOffset")
	}
	cm.GlyphIDArray = vfArb("glyphIdArray", 8)
	c4, err := newCmap4(cm)
	if err == nil {
		c4.Lookup(vfRune("r"))
	}
	vfCover("accepted", err == nil)
	vfReach("end")
}

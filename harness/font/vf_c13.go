//go:build verif

package font

import (
	"github.com/go-text/typesetting/font/opentype/tables"
)

// ---- C13: font.Face extents cache ----
//
// Face.GlyphExtents memoises glyphExtentsRaw per glyph; SetPpem/SetCoords must invalidate the memo.
// The raw computation (glyf+gvar, CFF, sbix, bitmaps) is replaced by its contract: an uninterpreted
// function of (glyph, coordinates, ppem) (each field ranging over two distinct values, which is enough to tell any two raw results apart). Everything else is the real code: the solver decides, for every
// glyph id, every coordinate/ppem value and every history of the bounded shape, that a used face answers
// like a fresh face with the same settings.

func vfFaceStub() {
	VfHook_Face_glyphExtentsRaw = func(f *Face, glyph GID) (GlyphExtents, bool) {
		a := uint64(glyph)
		var c uint64
		for i, v := range f.coords {
			c |= uint64(uint16(v)) << (16 * uint(i))
		}
		p := uint64(f.xPpem)<<16 | uint64(f.yPpem)
		ok := vfUF("rawOK", a, c, p)&1 == 1
		e := GlyphExtents{
			XBearing: vfIteF32(vfUF("rawXB", a, c, p)&1 == 1, 1, 0),
			YBearing: vfIteF32(vfUF("rawYB", a, c, p)&1 == 1, 1, 0),
			Width:    vfIteF32(vfUF("rawW", a, c, p)&1 == 1, 2, 1),
			Height:   vfIteF32(vfUF("rawH", a, c, p)&1 == 1, 2, 1),
		}
		return e, ok
	}
}

func vfSameExtents(a, b GlyphExtents) bool {
	return vfAnd(vfAnd(a.XBearing == b.XBearing, a.YBearing == b.YBearing), vfAnd(a.Width == b.Width, a.Height == b.Height))
}

func vfFaceCoords(name string) []tables.Coord {
	return []tables.Coord{tables.Coord(vfI16(name)), tables.Coord(vfI16(name))}
}

func vfFaceCheck(ft *Font, used *Face, g GID) {
	got, gotOK := used.GlyphExtents(g)
	fresh := NewFace(ft)
	fresh.SetCoords(used.Coords())
	x, y := used.Ppem()
	fresh.SetPpem(x, y)
	want, wantOK := fresh.GlyphExtents(g)
	vfAssert(gotOK == wantOK, "used face: GlyphExtents availability differs from a fresh face with the same settings")
	vfAssert(vfImplies(gotOK, vfSameExtents(got, want)), "used face: GlyphExtents differs from a fresh face with the same settings")
}

func VfH_C13_face() {
	vfFaceStub()
	nGlyphs := 1 + vfChoice("nGlyphs", 3)
	ft := &Font{nGlyphs: nGlyphs}
	used := NewFace(ft)

	maxOps := 3
	if vfThorough() {
		maxOps = 4
	}
	nops := vfChoice("nops", maxOps+1)
	for i := 0; i < nops; i++ {
		switch vfChoice("op", 3) {
		case 0:
			used.SetPpem(vfU16("ppem"), vfU16("ppem"))
		case 1:
			used.SetCoords(vfFaceCoords("coord"))
		case 2:
			// a query, checked like the final one (and it fills the cache)
			vfFaceCheck(ft, used, GID(vfU32("gid")))
		}
	}
	vfFaceCheck(ft, used, GID(vfU32("gid")))
	vfReach("end")
}

// H-C13-face-long: one glyph is cached, then a run of n invalidating calls follows (n symbolic up to the
// bound, so that counter-like invalidation state is exercised well past small wrap-arounds), then the
// same or another glyph is queried.
func VfH_C13_face_long() {
	vfFaceStub()
	ft := &Font{nGlyphs: 2}
	used := NewFace(ft)
	used.SetCoords(vfFaceCoords("coord0"))
	g0 := GID(vfU32("gid0"))
	used.GlyphExtents(g0)
	max := 300
	if vfThorough() {
		max = 600
	}
	n := vfInt("resets", 0, max)
	for i := 0; i < n; i++ {
		if i%2 == 0 {
			used.SetPpem(uint16(i), uint16(i))
		} else {
			used.SetCoords(used.Coords())
		}
	}
	used.SetCoords(vfFaceCoords("coord1"))
	vfFaceCheck(ft, used, GID(vfU32("gid1")))
	vfReach("end")
}

//go:build verif

package cff

import (
	ps "github.com/go-text/typesetting/font/cff/interpreter"
	"github.com/go-text/typesetting/font/opentype/tables"
)

// ---- C09: CFF2 variation operators on untrusted data ----
//
// H-C09-cff2-blend: the vsindex and blend operators of the CFF2 charstring handler with a variation store as
// the table parser can return it (unchecked region indexes, its own axis count), coordinates of any length 0..2
// and an arbitrary argument stack (depth 0..6, operand count n in -2..4): no panic whatever the font says.
func VfH_C09_cff2_blend() {
	var met cff2CharstringHandler
	axisCount := vfChoice("axisCount", 3)
	nRegions := vfChoice("nRegions", 3)
	for i := 0; i < nRegions; i++ {
		var reg tables.VariationRegion
		for a := 0; a < axisCount; a++ {
			reg.RegionAxes = append(reg.RegionAxes, tables.RegionAxisCoordinates{StartCoord: tables.Coord(vfI16("start")), PeakCoord: tables.Coord(vfI16("peak")), EndCoord: tables.Coord(vfI16("end"))})
		}
		met.vars.VariationRegionList.VariationRegions = append(met.vars.VariationRegionList.VariationRegions, reg)
	}
	nData := vfChoice("nData", 3)
	for d := 0; d < nData; d++ {
		var data tables.ItemVariationData
		nIdx := vfChoice("regionIndexCount", 3)
		for i := 0; i < nIdx; i++ {
			data.RegionIndexes = append(data.RegionIndexes, vfU16("regionIndex"))
		}
		met.vars.ItemVariationDatas = append(met.vars.ItemVariationDatas, data)
	}
	nc := vfChoice("nCoords", 3)
	for i := 0; i < nc; i++ {
		met.coords = append(met.coords, tables.Coord(vfI16("coord")))
	}
	if err := met.setVSIndex(vfChoice("vsindex", 4)); err != nil {
		vfReach("end")
		return
	}
	var state ps.Machine
	top := vfChoice("stackDepth", 7)
	for i := 0; i < top; i++ {
		state.ArgStack.Vals[i] = float64(i)
	}
	if top > 0 {
		state.ArgStack.Vals[top-1] = float64(vfChoice("n", 7) - 2) // the operand count read by blend
	}
	state.ArgStack.Top = int32(top)
	met.blend(&state)
	vfAssert(state.ArgStack.Top >= 0 && int(state.ArgStack.Top) <= len(state.ArgStack.Vals), "blend leaves the argument stack pointer outside the stack")
	vfReach("end")
}

//go:build verif

package shaping

import (
	"github.com/go-text/typesetting/di"
	"github.com/go-text/typesetting/font"
	"github.com/go-text/typesetting/harfbuzz"
	"github.com/go-text/typesetting/language"
	"golang.org/x/image/math/fixed"
)

var vfTextRunes = [...]rune{'a', ' ', 0x0301, 0x05D0, 0x200D, '\n'}

func vfShapeInput(n int) Input {
	text := make([]rune, n)
	for i := range text {
		text[i] = vfTextRunes[vfInt("rune", 0, len(vfTextRunes)-1)]
	}
	return Input{
		Text: text, RunStart: vfInt("RunStart", -2, n+2), RunEnd: vfInt("RunEnd", -2, n+2),
		Direction: vfDirection(), Face: &font.Face{Font: &font.Font{}},
		Size: fixed.Int26_6(vfInt("size", 1, 4096*64)), Script: language.Script(vfU32("script")), Language: "en",
	}
}

// H-C01-shape: the real HarfbuzzShaper.Shape (real Buffer.AddRunes/Clear, clamp, countClusters,
// sideways, RecalculateAll) with the HarfBuzz interior stubbed by contract: total for arbitrary run
// bounds, reports the requested range, and accounts for every rune of an in-range run.
func VfH_C01_shape() {
	max := 3
	if vfThorough() {
		max = 4
	}
	n := vfChoice("textLen", max+1)
	vfInstallHarfbuzzStub()
	in := vfShapeInput(n)
	var sh HarfbuzzShaper
	out := sh.Shape(in) // real code

	vfAssert(out.Runes.Offset == in.RunStart && out.Runes.Count == in.RunEnd-in.RunStart, "output does not report exactly the requested rune range")
	if 0 <= in.RunStart && in.RunStart <= in.RunEnd && in.RunEnd <= n {
		gs := out.Glyphs
		forward := in.Direction.Progression() == di.FromTopLeft
		sum := 0
		for i, g := range gs {
			vfAssert(in.RunStart <= g.ClusterIndex && g.ClusterIndex < in.RunEnd, "cluster index outside the run")
			if i > 0 {
				if forward {
					vfAssert(gs[i-1].ClusterIndex <= g.ClusterIndex, "clusters not monotone in reading direction")
				} else {
					vfAssert(gs[i-1].ClusterIndex >= g.ClusterIndex, "clusters not monotone in reading direction")
				}
			}
			cnt := 0
			for _, h := range gs {
				same := h.ClusterIndex == g.ClusterIndex
				cnt += vfIteInt(same, 1, 0)
				vfAssert(vfImplies(same, vfAnd(h.RuneCount == g.RuneCount, h.GlyphCount == g.GlyphCount)), "glyphs of one cluster carry different rune/glyph counts")
			}
			vfAssert(g.GlyphCount == cnt, "GlyphCount is not the number of glyphs of the cluster")
			firstOfCluster := i == 0 || gs[i-1].ClusterIndex != g.ClusterIndex
			sum += vfIteInt(firstOfCluster, g.RuneCount, 0)
		}
		if len(gs) > 0 {
			vfAssert(sum == in.RunEnd-in.RunStart, "per-cluster rune counts do not sum to the run length")
		}
		vfCover("multi", len(gs) > 1)
	}
	vfReach("end")
}

// H-C12-shape: geometry of the real Shape over the stub: cross-axis advances are zero, Advance is the sum,
// bounds enclose, LineBounds are the font extents under the advances' scale shift, and the sideways law:
// Shape(sideways vertical input) == rotate90(Shape(same input on the horizontal axis)).
func VfH_C12_shape() {
	max := 2
	if vfThorough() {
		max = 3
	}
	n := 1 + vfChoice("textLen", max)
	vfInstallHarfbuzzStub()
	in := vfShapeInput(n)
	vfAssume(0 <= in.RunStart && in.RunStart <= in.RunEnd && in.RunEnd <= n)
	var sh HarfbuzzShaper
	out := sh.Shape(in)
	vert := out.Direction.IsVertical()
	for _, g := range out.Glyphs {
		vfAssert(vfCross(g, vert) == 0, "glyph has a non-zero cross-axis advance")
	}
	vfAssert(out.Advance == vfAxisAdvance(&out), "Advance is not the sum of the glyph advances along the axis")
	vfAssert(out.GlyphBounds.Ascent >= 0 && out.GlyphBounds.Descent <= 0, "glyph bounds do not enclose the baseline")
	if in.Direction.IsSideways() {
		hin := in
		hin.Direction = in.Direction.SwitchAxis()
		var sh2 HarfbuzzShaper
		hout := sh2.Shape(hin)
		vfAssert(len(hout.Glyphs) == len(out.Glyphs), "sideways shaping has a different glyph count than the horizontal shaping")
		for i, v := range out.Glyphs {
			g := hout.Glyphs[i]
			vfAssert(v.GlyphID == g.GlyphID && v.ClusterIndex == g.ClusterIndex, "sideways shaping selects different glyphs/clusters")
			vfAssert(v.XOffset+v.XBearing == g.YOffset+g.YBearing+g.Height && v.Width == -g.Height, "sideways shaping is not the rotated horizontal shaping (x extent)")
			vfAssert(v.YOffset+v.YBearing == -(g.XOffset+g.XBearing) && v.Height == -g.Width, "sideways shaping is not the rotated horizontal shaping (y extent)")
			vfAssert(v.YAdvance == -g.XAdvance, "sideways shaping is not the rotated horizontal shaping (advance)")
		}
		vfReach("sideways")
	}
	vfReach("end")
}

// H-C13-shaper: one HarfbuzzShaper used for a first input and then for a second one returns what a fresh
// shaper returns for the second. The two inputs may use two distinct faces of ONE font (two variation
// instances): the stubbed HarfBuzz is a function of the face it was built for, as the real one is.
func VfH_C13_shaper() {
	vfInstallHarfbuzzStub()
	shared := &font.Font{}
	faces := [2]*font.Face{{Font: shared}, {Font: shared}}
	vfStubFaceOf = map[*harfbuzz.Font]int{}
	vfStubFaces = faces[:]
	dirs := [...]di.Direction{di.DirectionLTR, di.DirectionTTB}
	mk := func(name string) Input {
		return Input{
			Text: []rune{'a', 'b'}, RunStart: 0, RunEnd: 1 + vfChoice(name+"Len", 2),
			Direction: dirs[vfChoice(name+"Dir", len(dirs))], Face: faces[vfChoice(name+"Face", 2)],
			Size: fixed.Int26_6(vfInt("size", 1, 4096*64)), Script: language.Latin, Language: "en",
		}
	}
	a, b := mk("first"), mk("second")
	var used, fresh HarfbuzzShaper
	ncache := 2
	if vfThorough() {
		ncache = 3
	}
	used.SetFontCacheSize(vfChoice("cacheSize", ncache))
	fresh.SetFontCacheSize(2)
	used.Shape(a)
	got := used.Shape(b)
	want := fresh.Shape(b)
	vfAssert(len(got.Glyphs) == len(want.Glyphs), "reused shaper: different glyph count than a fresh shaper")
	for i := range got.Glyphs {
		g, w := got.Glyphs[i], want.Glyphs[i]
		vfAssert(g.GlyphID == w.GlyphID && g.ClusterIndex == w.ClusterIndex && g.XAdvance == w.XAdvance && g.YAdvance == w.YAdvance && g.Width == w.Width, "reused shaper returns different glyphs than a fresh shaper (state leaked from the previous call)")
	}
	vfAssert(got.Advance == want.Advance && got.LineBounds == want.LineBounds, "reused shaper returns different run metrics than a fresh shaper")
	vfReach("end")
}

// H-C13-fontlru: the shaper's font cache used the way Shape uses it (Get; on a miss build a font and Put it)
// over histories of accesses to three faces with every cache size 0..3: a cache may forget, but a hit must
// return the font that was built for THAT face, and the cache never holds more than maxSize entries.
func VfH_C13_fontlru() {
	faces := [3]*font.Face{{}, {}, {}}
	var lru fontLRU
	lru.maxSize = vfChoice("maxSize", 4)
	var built [3]*harfbuzz.Font
	steps := 4
	if vfThorough() {
		steps = 6
	}
	n := 1 + vfChoice("accesses", steps)
	for i := 0; i < n; i++ {
		k := vfChoice("face", 3)
		f, ok := lru.Get(faces[k])
		if ok {
			vfAssert(f != nil && f == built[k], "font cache hit returns a font that was not built for this face")
		} else {
			built[k] = &harfbuzz.Font{}
			lru.Put(faces[k], built[k])
		}
		vfAssert(len(lru.m) <= lru.maxSize, "font cache holds more entries than its maximum size")
		// the list and the map describe the same set
		cnt := 0
		if lru.head != nil {
			for e := lru.tail.next; e != lru.head; e = e.next {
				cnt++
				vfAssert(lru.m[e.key] == e, "font cache: list entry not indexed by its key")
				vfAssert(cnt <= 8, "font cache: list does not terminate")
			}
		}
		vfAssert(cnt == len(lru.m), "font cache: list and map sizes differ")
	}
	vfReach("end")
}

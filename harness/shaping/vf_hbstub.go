//go:build verif

package shaping

import (
	"github.com/go-text/typesetting/font"
	"github.com/go-text/typesetting/harfbuzz"
)

// HarfBuzz stub (DESIGN.md §2.6): the font-driven interior of the shaper is replaced by an
// arbitrary FUNCTION (uninterpreted) of the buffer/font state the real code hands over, constrained
// only by the documented contract of Buffer.Shape:
//   - at most n+1 glyphs for n input runes (0 for an empty buffer);
//   - every cluster value is one of the clusters that were added, clusters are monotone in the
//     buffer direction, and the smallest added cluster survives when at least one glyph is produced;
//   - len(Pos) == len(Info); the cross-axis advance is zero.
var vfStubCalls int

// which face a stubbed harfbuzz.Font was built for (harfbuzz.Font keeps its face in an unexported field)
var vfStubFaceOf map[*harfbuzz.Font]int
var vfStubFaces []*font.Face

func vfFaceID(f *harfbuzz.Font) uint64 {
	if vfStubFaceOf == nil {
		return 0
	}
	return uint64(vfStubFaceOf[f])
}

func vfS32(x uint64) int32 { return int32(int64(x)<<44>>44) } // 20 significant bits, sign extended

func vfInstallHarfbuzzStub() {
	vfStubCalls = 0
	harfbuzz.VfHook_NewFont = func(face harfbuzz.Face) *harfbuzz.Font {
		f := &harfbuzz.Font{}
		if vfStubFaceOf != nil {
			for i, x := range vfStubFaces {
				if x == face {
					vfStubFaceOf[f] = i + 1
				}
			}
		}
		return f
	}
	harfbuzz.VfHook_Font_GlyphExtents = func(f *harfbuzz.Font, g harfbuzz.GID) (harfbuzz.GlyphExtents, bool) {
		a, b := uint64(g), uint64(uint32(f.XScale))
		ok := vfUF("extOK", a, b)&1 == 1
		return harfbuzz.GlyphExtents{
			XBearing: vfS32(vfUF("extXB", a, b)), YBearing: vfS32(vfUF("extYB", a, b)),
			Width: vfS32(vfUF("extW", a, b)), Height: vfS32(vfUF("extH", a, b)),
		}, ok
	}
	harfbuzz.VfHook_Font_ExtentsForDirection = func(f *harfbuzz.Font, dir harfbuzz.Direction) font.FontExtents {
		a, b := uint64(dir), uint64(uint32(f.XScale))
		return font.FontExtents{
			Ascender:  float32(vfS32(vfUF("feA", a, b))),
			Descender: float32(vfS32(vfUF("feD", a, b))),
			LineGap:   float32(vfS32(vfUF("feG", a, b))),
		}
	}
	harfbuzz.VfHook_Buffer_Shape = func(b *harfbuzz.Buffer, f *harfbuzz.Font, feats []harfbuzz.Feature) {
		vfStubCalls++
		n := len(b.Info)
		if n == 0 {
			b.Info, b.Pos = b.Info[:0], b.Pos[:0]
			return
		}
		first := b.Info[0].Cluster
		dir := b.Props.Direction
		backward := dir == harfbuzz.RightToLeft || dir == harfbuzz.BottomToTop
		vertical := dir == harfbuzz.TopToBottom || dir == harfbuzz.BottomToTop
		// everything below is a function of this key
		key := func(i int) []uint64 {
			return []uint64{uint64(i), uint64(n), uint64(first), uint64(dir), uint64(b.Props.Script), uint64(uint32(f.XScale)), uint64(len(feats)), vfFaceID(f)}
		}
		mm := int(vfUF("hbCount", key(0)...) & 7) // no modulo: division by a non power of two is costly to bit-blast
		vfAssume(mm <= n+1)
		m := vfConcrete(mm)
		info := make([]harfbuzz.GlyphInfo, m)
		pos := make([]harfbuzz.GlyphPosition, m)
		hasFirst := false
		for i := 0; i < m; i++ {
			k := key(i)
			off := int(vfUF("hbCluster", k...) & 7)
			vfAssume(off < n)
			c := first + off
			info[i].Cluster = c
			info[i].Glyph = harfbuzz.GID(uint32(vfUF("hbGlyph", k...)))
			info[i].Mask = harfbuzz.GlyphMask(uint32(vfUF("hbMask", k...)))
			if i > 0 {
				if backward {
					vfAssume(info[i-1].Cluster >= c)
				} else {
					vfAssume(info[i-1].Cluster <= c)
				}
			}
			hasFirst = vfOr(hasFirst, c == first)
			adv := vfS32(vfUF("hbAdv", k...))
			if vertical {
				pos[i].YAdvance = adv
			} else {
				pos[i].XAdvance = adv
			}
			pos[i].XOffset = vfS32(vfUF("hbXOff", k...))
			pos[i].YOffset = vfS32(vfUF("hbYOff", k...))
		}
		if m > 0 {
			vfAssume(hasFirst)
		}
		b.Info, b.Pos = info, pos
	}
}

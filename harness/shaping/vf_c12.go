//go:build verif

package shaping

import (
	"github.com/go-text/typesetting/di"
	"golang.org/x/image/math/fixed"
)

const vfMetricBound = 1 << 20 // |metric| <= 2^20 (16384 px in 26.6): sums of a few glyphs cannot wrap

func vfMetric(name string) fixed.Int26_6 {
	return fixed.Int26_6(vfInt(name, -vfMetricBound, vfMetricBound))
}

// vfGlyphMetrics: fully symbolic metrics with the documented sign conventions (Width >= 0, Height <= 0).
func vfGlyphMetrics() Glyph {
	g := Glyph{
		Width: vfMetric("Width"), Height: vfMetric("Height"),
		XBearing: vfMetric("XBearing"), YBearing: vfMetric("YBearing"),
		XAdvance: vfMetric("XAdvance"), YAdvance: vfMetric("YAdvance"),
		XOffset: vfMetric("XOffset"), YOffset: vfMetric("YOffset"),
	}
	vfAssume(g.Width >= 0)
	vfAssume(g.Height <= 0)
	return g
}

func vfAxisAdvance(o *Output) fixed.Int26_6 {
	var sum fixed.Int26_6
	for _, g := range o.Glyphs {
		if o.Direction.IsVertical() {
			sum += g.YAdvance
		} else {
			sum += g.XAdvance
		}
	}
	return sum
}

// vfIdentities: advance = sum of axis advances; bounds enclose the baseline and every ink box.
func vfIdentities(o *Output, what string) {
	vfAssert(o.Advance == vfAxisAdvance(o), what+": Advance is not the sum of the glyph advances along the axis")
	vfAssert(o.GlyphBounds.Ascent >= 0 && o.GlyphBounds.Descent <= 0, what+": glyph bounds do not enclose the baseline")
	for _, g := range o.Glyphs {
		var lo, hi fixed.Int26_6
		if o.Direction.IsVertical() {
			lo = g.XOffset + g.XBearing
			hi = lo + g.Width
		} else {
			hi = g.YBearing + g.YOffset
			lo = hi + g.Height
		}
		vfAssert(vfAnd(o.GlyphBounds.Descent <= lo, hi <= o.GlyphBounds.Ascent), what+": glyph bounds do not enclose a glyph's ink box")
	}
}

func vfDirection() di.Direction { return di.Direction(vfU8("direction") & 0x0F) }

// H-C12-recalc: RecalculateAll / RecomputeAdvance on arbitrary glyph metrics and every direction value.
func VfH_C12_recalc() {
	max := 3
	if vfThorough() {
		max = 4
	}
	n := vfChoice("nglyphs", max+1)
	o := Output{Direction: vfDirection(), Glyphs: make([]Glyph, n)}
	for i := range o.Glyphs {
		o.Glyphs[i] = vfGlyphMetrics()
	}
	o.Advance = vfMetric("staleAdvance")
	o.GlyphBounds = Bounds{Ascent: vfMetric("staleAscent"), Descent: vfMetric("staleDescent")}
	o.RecalculateAll()
	vfIdentities(&o, "RecalculateAll")
	o.Advance = vfMetric("staleAdvance2")
	o.RecomputeAdvance()
	vfAssert(o.Advance == vfAxisAdvance(&o), "RecomputeAdvance: Advance is not the sum of the glyph advances")
	vfCover("vertical", o.Direction.IsVertical())
	vfReach("end")
}

// H-C12-sideways: sideways() is the 90 degree clockwise rotation (x, y) -> (y, -x) of every ink box and
// advance vector of a horizontal run, and the identities hold afterwards on the vertical axis.
func VfH_C12_sideways() {
	max := 2
	if vfThorough() {
		max = 4
	}
	n := 1 + vfChoice("nglyphs", max)
	dir := di.DirectionLTR
	if vfBool("rtl") {
		dir = di.DirectionRTL
	}
	o := Output{Direction: dir, Glyphs: make([]Glyph, n)}
	h := make([]Glyph, n)
	for i := range o.Glyphs {
		g := vfGlyphMetrics()
		vfAssume(g.YAdvance == 0) // horizontal shaping: no cross-axis advance
		o.Glyphs[i] = g
		h[i] = g
	}
	o.sideways()
	for i, v := range o.Glyphs {
		g := h[i]
		// horizontal ink box: x in [XOffset+XBearing, +Width], y in [YOffset+YBearing+Height, YOffset+YBearing]
		vfAssert(v.XOffset+v.XBearing == g.YOffset+g.YBearing+g.Height, "sideways: left edge is not the rotated bottom edge")
		vfAssert(v.Width == -g.Height, "sideways: width is not the former height")
		vfAssert(v.YOffset+v.YBearing == -(g.XOffset + g.XBearing), "sideways: top edge is not the rotated left edge")
		vfAssert(v.Height == -g.Width, "sideways: height is not the former width")
		vfAssert(v.XAdvance == 0, "sideways: cross-axis advance is not zero")
		vfAssert(v.YAdvance == -g.XAdvance, "sideways: advance vector not rotated")
	}
	vfAssert(o.Direction.IsVertical() && o.Direction.IsSideways(), "sideways: direction not vertical sideways")
	vfAssert(o.Direction.Progression() == dir.Progression(), "sideways: progression changed")
	o.RecalculateAll()
	vfIdentities(&o, "sideways+RecalculateAll")
	vfReach("end")
}

// vfClusters lays out n glyphs into consecutive clusters (GlyphCount consistent); returns the run.
func vfClusters(n int) []Glyph { return vfClustersAt(n, 0) }

// vfClustersAt: cluster values are absolute text indices starting at base (runs in the middle of a paragraph)
func vfClustersAt(n, base int) []Glyph {
	gs := make([]Glyph, n)
	for i := 0; i < n; {
		size := 1 + vfChoice("clusterSize", n-i)
		for k := i; k < i+size; k++ {
			gs[k] = vfGlyphMetrics()
			gs[k].GlyphCount = size
			gs[k].RuneCount = 1 + vfChoice("runeCount", 2)
			gs[k].ClusterIndex = base + i // absolute text index, equal inside the cluster
		}
		for k := i + 1; k < i+size; k++ {
			gs[k].RuneCount = gs[i].RuneCount
		}
		i += size
	}
	return gs
}

func vfAdv(g Glyph, vertical bool) fixed.Int26_6 {
	if vertical {
		return g.YAdvance
	}
	return g.XAdvance
}

func vfCross(g Glyph, vertical bool) fixed.Int26_6 {
	if vertical {
		return g.XAdvance
	}
	return g.YAdvance
}

// H-C12-letterspacing: AddLetterSpacing adds half the spacing on each side of every cluster except at a
// run boundary flagged as paragraph boundary, records what it added, changes nothing else, keeps
// Advance = sum; trimStartLetterSpacing removes exactly what was recorded on the first glyph.
func VfH_C12_letterspacing() {
	max := 3 // 4 glyphs did not finish inside 20 minutes: both tiers stop at 3
	n := 1 + vfChoice("nglyphs", max)
	o := Output{Direction: vfDirection(), Glyphs: vfClusters(n)}
	vert := o.Direction.IsVertical()
	before := append([]Glyph(nil), o.Glyphs...)
	sp := fixed.Int26_6(vfInt("spacing", -(1 << 12), 1<<12))
	isStart, isEnd := vfBool("isStartRun"), vfBool("isEndRun")
	o.AddLetterSpacing(sp, isStart, isEnd)
	half := sp / 2
	for i, g := range o.Glyphs {
		b := before[i]
		firstOfCluster := i == 0 || before[i-1].ClusterIndex != b.ClusterIndex
		lastOfCluster := i == n-1 || before[i+1].ClusterIndex != b.ClusterIndex
		var want, ws, we fixed.Int26_6
		if firstOfCluster && (i > 0 || !isStart) {
			want += half
			ws = half
		}
		if lastOfCluster && (i < n-1 || !isEnd) {
			want += half
			we = half
		}
		vfAssert(vfAdv(g, vert) == vfAdv(b, vert)+want, "AddLetterSpacing: advance did not grow by exactly half the spacing per eligible side")
		vfAssert(vfCross(g, vert) == vfCross(b, vert), "AddLetterSpacing: cross-axis advance changed")
		vfAssert(g.startLetterSpacing == ws && g.endLetterSpacing == we, "AddLetterSpacing: recorded start/end spacing differs from what was added")
		vfAssert(g.Width == b.Width && g.Height == b.Height && g.XBearing == b.XBearing && g.YBearing == b.YBearing, "AddLetterSpacing: glyph ink metrics changed")
	}
	vfAssert(o.Advance == vfAxisAdvance(&o), "AddLetterSpacing: Advance is not the sum of the glyph advances")
	first := o.Glyphs[0]
	o.trimStartLetterSpacing()
	vfAssert(vfAdv(o.Glyphs[0], vert) == vfAdv(first, vert)-first.startLetterSpacing, "trimStartLetterSpacing does not remove exactly the recorded start spacing")
	vfAssert(o.Glyphs[0].startLetterSpacing == 0, "trimStartLetterSpacing leaves a recorded start spacing")
	vfCover("boundary", isStart)
	vfReach("end")
}

var vfWordRunes = [...]rune{'a', ' ', ' ', '፡', '-', '\U00010100'}

// H-C12-wordspacing: AddWordSpacing enlarges exactly the 1:1 glyphs of word-separator runes by the
// requested amount, changes no other advance, and keeps Advance = sum.
func VfH_C12_wordspacing() {
	max := 3 // 4 glyphs did not finish inside 20 minutes: both tiers stop at 3
	n := 1 + vfChoice("nglyphs", max)
	off := vfChoice("runOffset", 3) // the run may start in the middle of the paragraph
	text := make([]rune, off+n+1)
	for i := range text {
		text[i] = vfWordRunes[vfInt("rune", 0, len(vfWordRunes)-1)]
	}
	o := Output{Direction: vfDirection(), Glyphs: vfClustersAt(n, off), Runes: Range{Offset: off, Count: n}}
	vert := o.Direction.IsVertical()
	before := append([]Glyph(nil), o.Glyphs...)
	sp := fixed.Int26_6(vfInt("spacing", -(1 << 12), 1<<12))
	o.AddWordSpacing(text, sp)
	for i, g := range o.Glyphs {
		b := before[i]
		r := text[b.ClusterIndex]
		sep := vfOr(vfOr(r == ' ', r == ' '), vfOr(r == '፡', r == '\U00010100'))
		eligible := vfAnd(sep, b.RuneCount == 1 && b.GlyphCount == 1)
		want := fixed.Int26_6(vfIteInt(eligible, int(sp), 0))
		vfAssert(vfAdv(g, vert) == vfAdv(b, vert)+want, "AddWordSpacing: advance did not grow by exactly the requested amount at exactly the separators")
		vfAssert(vfCross(g, vert) == vfCross(b, vert), "AddWordSpacing: cross-axis advance changed")
	}
	vfAssert(o.Advance == vfAxisAdvance(&o), "AddWordSpacing: Advance is not the sum of the glyph advances")
	vfReach("end")
}

//go:build verif

package shaping

import "github.com/go-text/typesetting/di"

// vfL2 is rule L2 of UAX #9: from the highest level down to the lowest odd level, reverse every
// maximal sequence of runs at that level or higher. Returns order[k] = logical index at visual slot k
// (slot 0 = leftmost / topmost).
func vfL2(levels []int) []int {
	n := len(levels)
	order := make([]int, n)
	maxL, minOdd := 0, 1<<30
	for i, l := range levels {
		order[i] = i
		if l > maxL {
			maxL = l
		}
		if l%2 == 1 && l < minOdd {
			minOdd = l
		}
	}
	for lvl := maxL; lvl >= minOdd; lvl-- {
		for i := 0; i < n; {
			if levels[order[i]] < lvl {
				i++
				continue
			}
			j := i
			for j < n && levels[order[j]] >= lvl {
				j++
			}
			for a, b := i, j-1; a < b; a, b = a+1, b-1 {
				order[a], order[b] = order[b], order[a]
			}
			i = j
		}
	}
	return order
}

// vfBidiLine builds a line of n runs whose directions are what itemization leaves for the given
// embedding levels: the paragraph's axis bits, progression = parity of the level, and (for vertical
// text) an arbitrary per-run orientation as set by splitByVertOrientation.
func vfBidiLine(n int, base int, paraDir di.Direction, maxAbove int) (Line, []int) {
	line := make(Line, n)
	levels := make([]int, n)
	for i := range line {
		levels[i] = vfInt("level", base, base+maxAbove)
		d := paraDir
		if levels[i]%2 == 1 {
			d.SetProgression(di.TowardTopLeft)
		} else {
			d.SetProgression(di.FromTopLeft)
		}
		if d.IsVertical() && vfBool("orientationResolved") {
			d.SetSideways(vfBool("sideways"))
		}
		line[i].Direction = d
		line[i].VisualIndex = int32(vfInt("staleVisualIndex", -1, 8))
	}
	return line, levels
}

func vfCheckVisual(line Line, levels []int) {
	n := len(line)
	want := vfL2(levels)
	for k := 0; k < n; k++ {
		vfAssert(int(line[want[k]].VisualIndex) == k, "VisualIndex differs from UAX #9 rule L2")
	}
	seen := 0
	for i := range line {
		v := int(line[i].VisualIndex)
		vfAssert(0 <= v && v < n, "VisualIndex out of range")
		seen |= 1 << uint(v)
	}
	vfAssert(seen == 1<<uint(n)-1, "VisualIndex is not a permutation")
}

// H-C08-order: computeBidiOrdering against rule L2 on symbolic embedding levels.
func VfH_C08_order() {
	max := 4
	if vfThorough() {
		max = 6
	}
	n := 1 + vfChoice("nruns", max)
	base := vfChoice("baseLevel", 2)
	paraDir := di.DirectionLTR
	if vfBool("vertical") {
		paraDir = di.DirectionTTB
	}
	if base == 1 {
		paraDir.SetProgression(di.TowardTopLeft)
	}
	line, levels := vfBidiLine(n, base, paraDir, 2)
	deep := false
	for _, l := range levels {
		deep = vfOr(deep, l >= base+2)
	}
	vfKnown("C08-level-above-base-plus-1", deep)
	computeBidiOrdering(paraDir, line)
	vfCheckVisual(line, levels)
	vfCover("mixed", n > 1 && levels[0] != levels[1])
	vfReach("end")
}

//go:build verif

package shaping

import (
	"github.com/go-text/typesetting/di"
	"github.com/go-text/typesetting/font"
	"github.com/go-text/typesetting/language"
	"github.com/go-text/typesetting/unicodedata"
	"golang.org/x/image/math/fixed"
	"golang.org/x/text/unicode/bidi"
)

var vfSplitAlphabet = [...]rune{'a', 0x05D0, ' ', '1', '(', ')', 0x4E2D, 0x0301}

// two distinct faces of ONE font (e.g. two variation instances): they are not interchangeable
var vfSharedFont = &font.Font{}
var vfFaces = [2]*font.Face{{Font: vfSharedFont}, {Font: vfSharedFont}}

// vfFontmap: an ARBITRARY font map: the face is an uninterpreted function of the rune and of the
// script hint last given through SetScript (FontmapScript), over two faces.
type vfFontmap struct {
	script  language.Script
	hinted  bool
	queries int
}

func (f *vfFontmap) SetScript(s language.Script) { f.script = s; f.hinted = true }
func (f *vfFontmap) ResolveFace(r rune) *font.Face {
	f.queries++
	return vfFaces[vfConcrete(int(vfUF("face", uint64(r), uint64(f.script))&1))]
}

func vfSplitInput(maxLen, alpha int) Input { return vfSplitInputX(maxLen, alpha, false) }

// simple: whole text as the range, language "en" (used for the history part of the reuse harness)
func vfSplitInputX(maxLen, alpha int, simple bool) Input {
	n := vfChoice("textLen", maxLen+1)
	text := make([]rune, n)
	for i := range text {
		text[i] = vfSplitAlphabet[vfChoice("rune", alpha)]
	}
	langs := [...]language.Language{"", "en", "he", "zz-unknown"}
	if simple {
		return Input{Text: text, RunStart: 0, RunEnd: n, Direction: vfDirection(), Size: 64, Language: "en"}
	}
	start := vfChoice("RunStart", n+1)
	end := start + vfChoice("runLen", n-start+1)
	return Input{
		Text: text, RunStart: start, RunEnd: end,
		Direction: vfDirection(), Size: fixed.Int26_6(vfInt("size", 1, 1<<20)),
		Language:     langs[vfChoice("language", len(langs))],
		FontFeatures: []FontFeature{{Tag: 1, Value: 1}},
	}
}

func vfCheckSplit(in Input, out []Input, fm *vfFontmap) {
	if in.RunStart >= in.RunEnd {
		vfAssert(len(out) == 1 && out[0].RunStart == in.RunStart && out[0].RunEnd == in.RunEnd, "empty range: the input is not returned as the single run")
		return
	}
	// reference bidi runs of the requested range
	var p bidi.Paragraph
	def := bidi.LeftToRight
	if in.Direction.Progression() == di.TowardTopLeft {
		def = bidi.RightToLeft
	}
	p.SetString(string(in.Text[in.RunStart:in.RunEnd]), bidi.DefaultDirection(def))
	ord, err := p.Order()
	rtl := make([]bool, len(in.Text))
	haveBidi := err == nil && ord.NumRuns() > 0
	if haveBidi {
		for i := 0; i < ord.NumRuns(); i++ {
			r := ord.Run(i)
			s, e := r.Pos()
			for k := s; k <= e; k++ {
				rtl[in.RunStart+k] = r.Direction() == bidi.RightToLeft
			}
		}
	}
	next := in.RunStart
	for _, run := range out {
		vfAssert(run.RunStart == next, "runs are not consecutive from RunStart")
		vfAssert(run.RunEnd > run.RunStart, "empty run")
		next = run.RunEnd
		vfAssert(len(run.Text) == len(in.Text) && (len(in.Text) == 0 || &run.Text[0] == &in.Text[0]), "Text was changed")
		vfAssert(run.Size == in.Size, "Size was changed")
		vfAssert(len(run.FontFeatures) == len(in.FontFeatures) && run.FontFeatures[0] == in.FontFeatures[0], "FontFeatures were changed")
		vfAssert(run.Direction.IsVertical() == in.Direction.IsVertical(), "axis was changed")
		vo := unicodedata.LookupVerticalOrientation(run.Script)
		resolveOrientation := in.Direction.IsVertical() && !in.Direction.HasVerticalOrientation()
		if !resolveOrientation {
			vfAssert(run.Direction.IsSideways() == in.Direction.IsSideways() && run.Direction.HasVerticalOrientation() == in.Direction.HasVerticalOrientation(), "fixed orientation was changed")
		}
		for i := run.RunStart; i < run.RunEnd && i < len(in.Text); i++ {
			r := in.Text[i]
			if haveBidi {
				vfAssert((run.Direction.Progression() == di.TowardTopLeft) == rtl[i], "rune lies in a bidi run of the other direction")
			}
			if s := language.LookupScript(r); s.Strong() {
				vfAssert(s == run.Script, "rune with a specific script in a run of another script")
			}
			if resolveOrientation {
				vfAssert(vo.Orientation(r) == run.Direction.IsSideways(), "rune orientation differs from the run's")
			}
			if !(ignoreFaceChange(r)) {
				hint := language.Script(0)
				if fm.hinted {
					hint = run.Script
				}
				want := vfFaces[vfConcrete(int(vfUF("face", uint64(r), uint64(hint))&1))]
				vfAssert(run.Face == want, "rune resolves to a face other than the run's")
			}
		}
		vfAssert(run.Face != nil, "run without face")
		if id, ok := language.NewLangID(run.Language); ok {
			vfAssert(id.UseScript(run.Script) || language.ScriptToLang[run.Script] == 0 || run.Language == in.Language, "language tag incompatible with the script although a replacement exists")
		}
	}
	vfAssert(next == in.RunEnd, "runs do not cover the requested range exactly")
}

// H-C07-split: the real Segmenter.Split on every bounded text/sub-range, for every direction value and
// every font map (uninterpreted function of rune and script hint).
func VfH_C07_split() {
	maxLen, alpha := 2, 8
	if vfThorough() {
		maxLen = 3
	}
	in := vfSplitInput(maxLen, alpha)
	fm := &vfFontmap{}
	var seg Segmenter
	out := seg.Split(in, fm)
	vfCheckSplit(in, out, fm)
	vfCover("multi", len(out) > 1)
	vfReach("end")
}

// H-C13-split: a Segmenter used before returns what a fresh one returns.
func VfH_C13_split() {
	maxLen, alpha := 2, 3
	if vfThorough() {
		maxLen, alpha = 2, 5
	}
	a := vfSplitInputX(maxLen, alpha, true)
	b := vfSplitInput(maxLen, alpha)
	// the history must not matter whatever the font map is; a concrete one keeps this harness small
	// (arbitrary font maps are the subject of H-C07-split)
	fm := fixedRuneFontmap{}
	var used, fresh Segmenter
	used.Split(a, fm)
	got := used.Split(b, fm)
	want := fresh.Split(b, fm)
	vfAssert(len(got) == len(want), "reused Segmenter returns a different number of runs")
	for i := range got {
		g, w := got[i], want[i]
		vfAssert(g.RunStart == w.RunStart && g.RunEnd == w.RunEnd && g.Direction == w.Direction && g.Script == w.Script && g.Language == w.Language && g.Face == w.Face && g.Size == w.Size, "reused Segmenter returns a different run")
	}
	vfReach("end")
}

type fixedRuneFontmap struct{}

func (fixedRuneFontmap) ResolveFace(r rune) *font.Face { return vfFaces[int(r)&1] }

// ---- C07: matched brackets follow their context ----

// H-C07-delims: the paired-delimiter table as the search and the open/close convention need it:
// strictly sorted; lookupDelimIndex agrees with a linear scan for EVERY rune; and the parity convention
// (even index = opening, odd = closing character of the same pair) agrees with the bracket data of
// golang.org/x/text/unicode/bidi (BidiBrackets.txt) wherever that data knows the character.
func VfH_C07_delims() {
	for i := 1; i < len(pairedDelims); i++ {
		vfAssert(pairedDelims[i-1] < pairedDelims[i], "paired delimiter table is not strictly sorted")
	}
	r := vfRune("r")
	got := lookupDelimIndex(r)
	want := -1
	for i, d := range pairedDelims {
		want = vfIteInt(d == r, i, want)
	}
	vfAssert(got == want, "lookupDelimIndex differs from a linear scan of the table")
	for i, d := range pairedDelims {
		p, _ := bidi.LookupRune(d)
		if p.IsBracket() {
			vfAssert(p.IsOpeningBracket() == (i%2 == 0), "paired delimiter table: an opening bracket sits at an odd index (or a closing one at an even index)")
		}
	}
	vfCover("found", got >= 0)
	vfCover("missing", got < 0)
	vfReach("end")
}

// H-C07-brackets: in a text with one opening and one matching closing bracket (in that order) around and
// between Latin and Hebrew letters, the closing bracket is placed in a run of the script its opening
// bracket was placed in.
func VfH_C07_brackets() {
	pairs := [...][2]rune{{'(', ')'}, {'[', ']'}, {0x300C, 0x300D}, {0x3010, 0x3011}, {0xFF08, 0xFF09}, {0x2E28, 0x2E29}}
	pair := pairs[vfChoice("pair", len(pairs))]
	n := 3 + vfChoice("textLen", 3) // 3..5 runes
	open := vfChoice("openAt", n-1)
	closeAt := open + 1 + vfChoice("closeAfter", n-1-open)
	text := make([]rune, n)
	letters := [...]rune{'a', 0x05D0}
	for i := range text {
		switch i {
		case open:
			text[i] = pair[0]
		case closeAt:
			text[i] = pair[1]
		default:
			text[i] = letters[vfChoice("letter", 2)]
		}
	}
	in := Input{Text: text, RunStart: 0, RunEnd: n, Direction: di.DirectionLTR, Size: 64, Language: "en"}
	var seg Segmenter
	out := seg.Split(in, fixedRuneFontmap{})
	scriptAt := func(pos int) language.Script {
		for _, run := range out {
			if run.RunStart <= pos && pos < run.RunEnd {
				return run.Script
			}
		}
		return 0
	}
	vfAssert(scriptAt(closeAt) == scriptAt(open), "a closing bracket is not placed with the script of its opening bracket")
	vfReach("end")
}

//go:build verif

package shaping

import (
	"github.com/go-text/typesetting/di"
	"github.com/go-text/typesetting/font"
	"github.com/go-text/typesetting/segmenter"
	"golang.org/x/image/math/fixed"
)

// ---- the wrap harness family (C02, C03, C04, C08 through the public LineWrapper API) ----

var vfWrapAlphabet = [...]rune{'a', ' ', 0x2029, 0x0301, '\n', '-', '1', 0x200D}

const vfTruncatorSize = fixed.Int26_6(777 << 6) // marks the truncator run

type vfWrapCase struct {
	text      []rune
	runs      []Output // input runs (the wrapper works on these)
	orig      []Output // deep copies taken before wrapping
	paraDir   di.Direction
	config    WrapConfig
	maxWidth  int
	lineBreak []bool // lineBreak[i]: UAX #14 allows a break before rune i (1..n), from the real segmenter
	mandatory []bool // mandatory[i]: a mandatory break before rune i
	grapheme  []bool // grapheme[i]: grapheme cluster boundary before rune i
	cluster   []bool // cluster[i]: shaped-cluster boundary before rune i (always true at run boundaries)
}

func vfCopyRuns(runs []Output) []Output {
	out := make([]Output, len(runs))
	for i, r := range runs {
		out[i] = r
		out[i].Glyphs = append([]Glyph(nil), r.Glyphs...)
	}
	return out
}

// vfShapedRun builds what Shape guarantees (C01) for runes [start, end): monotone clusters inside
// the run, consistent counts (by the real countClusters), Advance = sum. kind selects the cluster
// structure: 0 = one glyph per rune, 1 = the first two runes form a ligature, 2 = the first rune has two glyphs.
func vfShapedRun(start, end int, dir di.Direction, kind int, tag *int) Output {
	var clusters []int
	for r := start; r < end; r++ {
		switch {
		case kind == 1 && r == start+1 && end-start >= 2:
			// second rune of the ligature: no glyph of its own
		case kind == 2 && r == start:
			clusters = append(clusters, r, r)
		case kind == 3 && end-start >= 3 && r == start:
			clusters = append(clusters, r, r) // two glyphs for the first rune, then a ligature of the next two
		case kind == 3 && end-start >= 3 && r == start+2:
		case kind == 4 && end-start >= 3 && r == start+1:
			// ligature of the first two runes, then two glyphs for the third
		case kind == 4 && end-start >= 3 && r == start+2:
			clusters = append(clusters, r, r)
		case kind == 5 && end-start >= 3 && r == end-1:
			// ligature of the LAST two runes
		default:
			clusters = append(clusters, r)
		}
	}
	n := len(clusters)
	gs := make([]Glyph, n)
	for i := 0; i < n; i++ {
		c := clusters[i]
		if dir.Progression() == di.TowardTopLeft {
			c = clusters[n-1-i]
		}
		*tag++
		g := Glyph{ClusterIndex: c, GlyphID: font.GID(*tag)}
		adv := fixed.Int26_6(vfInt("advance", 0, 4*64))
		if dir.IsVertical() {
			g.YAdvance = -adv
			g.Height = fixed.Int26_6(vfIteInt(vfBool("inkless"), 0, -64))
		} else {
			g.XAdvance = adv
			g.Width = fixed.Int26_6(vfIteInt(vfBool("inkless"), 0, 64))
		}
		gs[i] = g
	}
	countClusters(gs, end, dir.Progression())
	out := Output{Glyphs: gs, Direction: dir, Runes: Range{Offset: start, Count: end - start}, Size: 16 << 6}
	out.RecalculateAll()
	return out
}

func vfWrapSetup(maxLen int, alphabet int, vertical bool) *vfWrapCase {
	return vfWrapSetupX(0, maxLen, alphabet, vertical, false)
}

var vfWrapTruncOpposite bool // whether the truncator may run against the paragraph (set by the harness entry)

var vfWrapSimpleKinds []int // cluster shapes of the single run of the "simple" layouts (nil: one glyph per rune)

// simple: a single 1:1 run in paragraph direction (used to reach longer texts cheaply)
func vfWrapSetupX(minLen, maxLen int, alphabet int, vertical, simple bool) *vfWrapCase {
	c := &vfWrapCase{}
	n := minLen + vfChoice("textLen", maxLen-minLen+1)
	c.text = make([]rune, n)
	for i := range c.text {
		c.text[i] = vfWrapAlphabet[vfChoice("rune", alphabet)]
	}
	c.paraDir = di.DirectionLTR
	if vertical {
		c.paraDir = di.DirectionTTB
	}
	if vfChoice("paragraphRTL", 2) == 1 {
		c.paraDir.SetProgression(di.TowardTopLeft)
	}
	// runs: one run, or two runs split at a case-split position
	split := 0
	if n >= 2 && !simple {
		split = vfChoice("runSplit", n) // 0: single run; k: runs [0,k) and [k,n)
	}
	tag := 100
	mk := func(start, end int) Output {
		d := c.paraDir
		if simple {
			kind := 0
			if len(vfWrapSimpleKinds) > 0 {
				kind = vfWrapSimpleKinds[vfChoice("clusterKind", len(vfWrapSimpleKinds))]
			}
			return vfShapedRun(start, end, d, kind, &tag)
		}
		if vfChoice("runOpposite", 2) == 1 {
			if d.Progression() == di.FromTopLeft {
				d.SetProgression(di.TowardTopLeft)
			} else {
				d.SetProgression(di.FromTopLeft)
			}
		}
		kinds := 6
		if !vfThorough() {
			kinds = 2
			if start > 0 {
				kinds = 1 // quick tier: only the first run gets a non-trivial cluster shape
			}
		}
		return vfShapedRun(start, end, d, vfChoice("clusterKind", kinds), &tag)
	}
	if n > 0 {
		if split == 0 {
			c.runs = []Output{mk(0, n)}
		} else {
			c.runs = []Output{mk(0, split), mk(split, n)}
		}
	}
	c.orig = vfCopyRuns(c.runs)

	// break opportunities from the real segmenter (itself the subject of C06)
	c.lineBreak, c.mandatory, c.grapheme, c.cluster = make([]bool, n+1), make([]bool, n+1), make([]bool, n+1), make([]bool, n+1)
	var seg segmenter.Segmenter
	seg.Init(c.text)
	for it := seg.LineIterator(); it.Next(); {
		l := it.Line()
		e := l.Offset + len(l.Text)
		c.lineBreak[e] = true
		c.mandatory[e] = l.IsMandatoryBreak && e != n
	}
	for it := seg.GraphemeIterator(); it.Next(); {
		g := it.Grapheme()
		c.grapheme[g.Offset+len(g.Text)] = true
	}
	for _, r := range c.orig {
		c.cluster[r.Runes.Offset] = true
		c.cluster[r.Runes.Offset+r.Runes.Count] = true
		for _, g := range r.Glyphs {
			c.cluster[g.ClusterIndex] = true
		}
	}
	// the start of the text is trivially a boundary of every kind
	c.cluster[0], c.lineBreak[0], c.grapheme[0] = true, true, true

	insideGrapheme := false
	for _, r := range c.orig {
		b := r.Runes.Offset
		if b > 0 && !c.lineBreak[b] {
			insideGrapheme = true // a run boundary that is not a UAX #14 opportunity
		}
	}
	vfKnown("C03-truncation-at-run-boundary", insideGrapheme)
	breakInsideGrapheme := false
	for p := 1; p < n; p++ {
		if c.lineBreak[p] && !c.grapheme[p] {
			breakInsideGrapheme = true // e.g. space + combining mark: UAX #14 allows a break inside the grapheme
		}
	}
	vfKnown("C04-uax14-break-inside-grapheme", breakInsideGrapheme)

	c.config = WrapConfig{
		Direction:                     c.paraDir,
		BreakPolicy:                   LineBreakPolicy(vfInt("policy", 0, 2)),
		TruncateAfterLines:            vfInt("truncateAfterLines", 0, 2),
		TextContinues:                 vfBool("textContinues"),
		DisableTrailingWhitespaceTrim: vfBool("disableTrim"),
	}
	truncDir := c.paraDir
	if vfWrapTruncOpposite && vfBool("truncatorOpposite") {
		if truncDir.Progression() == di.FromTopLeft {
			truncDir.SetProgression(di.TowardTopLeft)
		} else {
			truncDir.SetProgression(di.FromTopLeft)
		}
	}
	c.config.Truncator = Output{Direction: truncDir, Size: vfTruncatorSize}
	if !vfThorough() || vfChoice("truncatorGlyph", 2) == 1 { // quick tier: always one glyph (its advance may be 0)
		g := Glyph{GlyphID: 9999, GlyphCount: 1}
		if c.paraDir.IsVertical() {
			g.YAdvance = -fixed.Int26_6(vfInt("truncatorAdvance", 0, 3*64))
			g.Height = -64
		} else {
			g.XAdvance = fixed.Int26_6(vfInt("truncatorAdvance", 0, 3*64))
			g.Width = 64
		}
		c.config.Truncator.Glyphs = []Glyph{g}
		c.config.Truncator.RecalculateAll()
	}
	c.maxWidth = vfInt("maxWidth", 0, 16)
	return c
}

func vfAbs(x fixed.Int26_6) fixed.Int26_6 {
	if x < 0 {
		return -x
	}
	return x
}

// vfSpan sums the ORIGINAL advances (before any trimming) of the glyphs whose cluster lies in [from, to),
// and returns the largest advance among inkless glyphs sitting at the logical end of that span
// (the candidate "trailing whitespace glyph" under the most generous reading).
func (c *vfWrapCase) vfSpan(from, to int) (total, trailing fixed.Int26_6) {
	vert := c.paraDir.IsVertical()
	for _, o := range c.orig {
		for _, g := range o.Glyphs {
			if from <= g.ClusterIndex && g.ClusterIndex < to {
				a := vfAbs(vfAdv(g, vert))
				total += a
				ink := g.Width
				if vert {
					ink = g.Height
				}
				// last cluster of the span
				isLast := true
				for _, o2 := range c.orig {
					for _, h := range o2.Glyphs {
						if h.ClusterIndex > g.ClusterIndex && h.ClusterIndex < to {
							isLast = false
						}
					}
				}
				if isLast && ink == 0 && a > trailing {
					trailing = a
				}
			}
		}
	}
	return
}

// vfPermitted: a line may end before rune p under the policy, and p is a shaped-cluster boundary.
func (c *vfWrapCase) vfPermitted(p int, wordOnly bool) bool {
	if !c.cluster[p] {
		return false
	}
	if wordOnly {
		return c.lineBreak[p]
	}
	return c.lineBreak[p] || c.grapheme[p]
}

// vfCheckLines asserts C02 (conservation), the structural part of C03 (where lines may end),
// the counting part of C04 (line limit, truncator) and C08 (visual order) on the wrapped result.
func (c *vfWrapCase) vfCheckLines(lines []Line, truncated int) {
	n := len(c.text)
	k := c.config.TruncateAfterLines
	vert := c.paraDir.IsVertical()

	// --- C04: line limit
	if k > 0 {
		vfAssert(len(lines) <= k, "C04: more lines than TruncateAfterLines")
	}
	vfAssert(truncated >= 0 && truncated <= n, "C02: truncated count out of range")
	if k == 0 {
		vfAssert(truncated == 0, "C02: runes reported truncated although truncation is off")
	}

	next := 0 // next expected rune
	insideKnown := false
	for _, r := range c.orig {
		if b := r.Runes.Offset; b > 0 && !c.lineBreak[b] {
			insideKnown = true // runs split where no UAX #14 break is allowed: see known finding C03-truncation-at-run-boundary
		}
	}
	for li, line := range lines {
		vfAssert(len(line) > 0, "C02: empty line returned")
		lastLine := li == len(lines)-1
		levels := make([]int, len(line))
		base := 0
		if c.paraDir.Progression() == di.TowardTopLeft {
			base = 1
		}
		sawTruncator := false
		for ri, run := range line {
			levels[ri] = base
			if run.Direction.Progression() != c.paraDir.Progression() {
				levels[ri] = base + 1
			}
			if run.Size == vfTruncatorSize {
				// --- the truncator: only as the very last run of the last permitted line
				vfAssert(lastLine && ri == len(line)-1 && k > 0, "C04: truncator run in an unexpected place")
				vfAssert(run.Runes.Offset == n-truncated && run.Runes.Count == truncated, "C04: truncator does not report the cut range")
				sawTruncator = true
				continue
			}
			// --- C02: contiguity
			vfAssert(run.Runes.Count > 0, "C02: empty run placed on a line")
			vfAssert(run.Runes.Offset == next, "C02: rune ranges of the placed runs are not contiguous from 0")
			// which input run does it come from?
			src := -1
			for oi, o := range c.orig {
				if o.Runes.Offset <= run.Runes.Offset && run.Runes.Offset+run.Runes.Count <= o.Runes.Offset+o.Runes.Count {
					src = oi
				}
			}
			vfAssert(src >= 0, "C02: placed run is not a piece of one input run")
			o := c.orig[src]
			vfAssert(run.Direction == o.Direction, "C02: placed run changed direction")
			// exactly the glyphs of the clusters in its rune range, in order
			gi := 0
			for _, g := range o.Glyphs {
				if run.Runes.Offset <= g.ClusterIndex && g.ClusterIndex < run.Runes.Offset+run.Runes.Count {
					vfAssert(gi < len(run.Glyphs) && run.Glyphs[gi].GlyphID == g.GlyphID, "C02: glyph lost, duplicated, reordered or split off its cluster")
					vfAssert(run.Glyphs[gi].ClusterIndex == g.ClusterIndex, "C02: glyph cluster changed")
					gi++
				}
			}
			vfAssert(gi == len(run.Glyphs), "C02: placed run holds glyphs outside its rune range")
			var sum fixed.Int26_6
			for _, g := range run.Glyphs {
				sum += vfAdv(g, vert)
			}
			vfAssert(run.Advance == sum, "C02: run advance is not the sum of its glyph advances")
			next = run.Runes.Offset + run.Runes.Count
		}
		// --- C04: truncator exactly when runes were cut or the text continues. (A line slot may be
		// consumed by an empty line that WrapParagraph drops, so "the k-th line" is not observable
		// through the count of returned lines; the assertions are phrased on what is observable.)
		if lastLine {
			if sawTruncator {
				vfAssert(truncated > 0 || c.config.TextContinues, "C04: truncator appended although nothing was cut and the text does not continue")
			}
			if truncated > 0 || (k > 0 && len(lines) == k && c.config.TextContinues) {
				vfAssert(sawTruncator, "C04: runes were cut (or the text continues on the last permitted line) but no truncator was appended")
			}
		} else {
			vfAssert(!sawTruncator, "C04: truncator on a line that is not the last one")
		}
		// --- C03: where the line ends
		e := next
		if e < n {
			vfAssert(c.cluster[e], "C03: line ends inside a shaped glyph cluster")
			if c.config.BreakPolicy == Never {
				vfAssert(c.lineBreak[e], "C03: policy Never, but the line ends inside a UAX #14 segment")
			} else {
				vfAssert(c.lineBreak[e] || c.grapheme[e], "C03: line ends where neither UAX #14 nor a grapheme boundary allows it")
			}
		}
		// a mandatory break that is a cluster boundary always ends its line
		start := 0
		if li > 0 {
			prev := lines[li-1]
			for _, r := range prev {
				if r.Size != vfTruncatorSize {
					start = r.Runes.Offset + r.Runes.Count
				}
			}
		}
		for b := start + 1; b < e; b++ {
			vfAssert(!(c.mandatory[b] && c.cluster[b]), "C03: a line spans a mandatory break")
		}
		// --- C04: the line fits, unless it holds a single unbreakable unit (smallest reading of the
		// measured width: one trailing inkless glyph is not counted)
		wordOnly := c.config.BreakPolicy == Never
		hasInterior := false
		for p := start + 1; p < e; p++ {
			hasInterior = hasInterior || c.vfPermitted(p, wordOnly)
		}
		total, trailing := c.vfSpan(start, e)
		limit := c.maxWidth
		if sawTruncator {
			limit = c.maxWidth - vfAbs(c.config.Truncator.Advance).Ceil()
		}
		if hasInterior && !insideKnown {
			vfAssert((total-trailing).Ceil() <= limit, "C04: line wider than the maximum although it could have been broken earlier")
		}
		// --- C04: greedy filling: a line ending at an optional UAX #14 break could not have been
		// extended to the next permitted break (largest reading: nothing discounted)
		lastPermitted := k > 0 && li == k-1
		if e < n && c.lineBreak[e] && !c.mandatory[e] && !lastPermitted && !insideKnown {
			next := -1
			for p := n; p > e; p-- {
				if p == n || c.vfPermitted(p, c.config.BreakPolicy != Always) {
					next = p
				}
			}
			// no mandatory break may lie strictly before the extension point
			blocked := false
			for p := e + 1; p < next; p++ {
				blocked = blocked || c.mandatory[p]
			}
			if next > e && !blocked {
				ext, _ := c.vfSpan(start, next)
				vfAssert(ext.Ceil() > c.maxWidth, "C04: line ends at an optional break although the text up to the next permitted break fits")
			}
		}
		// --- C08: trailing-whitespace trimming touches only the glyph at the line end in paragraph
		// direction: the first (TowardTopLeft) or last (FromTopLeft) glyph of the visually last run
		// (the truncator is appended after trimming: the line end is the last TEXT run in paragraph direction)
		goal := int32(-1)
		for _, run := range line {
			if run.Size == vfTruncatorSize {
				continue
			}
			if goal < 0 || (c.paraDir.Progression() == di.FromTopLeft && run.VisualIndex > goal) || (c.paraDir.Progression() == di.TowardTopLeft && run.VisualIndex < goal) {
				goal = run.VisualIndex
			}
		}
		for _, run := range line {
			if run.Size == vfTruncatorSize {
				continue
			}
			for gi, g := range run.Glyphs {
				var origAdv fixed.Int26_6
				for _, o := range c.orig {
					for _, og := range o.Glyphs {
						if og.GlyphID == g.GlyphID {
							origAdv = vfAdv(og, vert)
						}
					}
				}
				atEnd := gi == len(run.Glyphs)-1
				if c.paraDir.Progression() == di.TowardTopLeft {
					atEnd = gi == 0
				}
				place := run.VisualIndex == goal && atEnd
				changed := vfAdv(g, vert) != origAdv
				vfAssert(vfImplies(changed, vfAnd(vfAnd(!c.config.DisableTrailingWhitespaceTrim, place), vfAdv(g, vert) == 0)), "VisualIndex/trim: an advance was changed on a glyph that is not the line-end glyph in paragraph direction")
			}
		}
		// --- C08: visual order of the line (levels are base / base+1 here, so rule L2 applies exactly)
		vfCheckVisual(line, levels)
	}
	vfAssert(next == n-truncated, "C02: lines plus truncated count do not cover the paragraph exactly once")
	if n > 0 && k == 0 {
		vfAssert(len(lines) > 0, "C02: no line returned for a non-empty paragraph")
	}
}

// H-wrap-paragraph: the real WrapParagraph (with the real segmenter) over every bounded paragraph.
func VfH_wrap_paragraph() {
	maxLen, alpha := 2, 4
	if vfThorough() {
		maxLen, alpha = 3, 5
	}
	vfWrapTruncOpposite = vfThorough()
	c := vfWrapSetup(maxLen, alpha, false)
	var lw LineWrapper
	lines, truncated := lw.WrapParagraph(c.config, c.maxWidth, c.text, NewSliceIterator(c.runs))
	c.vfCheckLines(lines, truncated)
	vfCover("two-lines", len(lines) >= 2)
	vfCover("truncated", truncated > 0)
	vfReach("end")
}

// H-wrap-long: longer paragraphs (3..4 runes over {a, space, U+2029}) in the simplest layout (one 1:1 run in
// paragraph direction): reaches multi-word situations ("a bc") the small full harness cannot.
func VfH_wrap_long() {
	maxLen := 3
	if vfThorough() {
		maxLen = 4
	}
	vfWrapTruncOpposite = vfThorough()
	alpha := 2
	if vfThorough() {
		alpha = 3
	}
	c := vfWrapSetupX(3, maxLen, alpha, false, true)
	var lw LineWrapper
	lines, truncated := lw.WrapParagraph(c.config, c.maxWidth, c.text, NewSliceIterator(c.runs))
	c.vfCheckLines(lines, truncated)
	vfReach("end")
}

// H-wrap-mixed: three runes without line break opportunity in one run whose clusters mix a ligature and a
// multi-glyph cluster (equal rune and glyph counts, but no 1:1 mapping), or end with a ligature: the line has to
// be broken inside the run.
func VfH_wrap_mixed() {
	vfWrapTruncOpposite = false
	vfWrapSimpleKinds = []int{3, 4, 5, 1}
	c := vfWrapSetupX(3, 3, 1, false, true)
	vfWrapSimpleKinds = nil
	var lw LineWrapper
	lines, truncated := lw.WrapParagraph(c.config, c.maxWidth, c.text, NewSliceIterator(c.runs))
	c.vfCheckLines(lines, truncated)
	vfReach("end")
}

// H-C13-wrap: one LineWrapper used for a first paragraph and then for a second one returns what a fresh
// wrapper returns for the second. The two paragraphs have the same text length, glyph count and direction
// but different cluster layouts (ligature on the first two / on the last two runes).
func VfH_C13_wrap() {
	mk := func(kind int, tag int) (*vfWrapCase, []Output) {
		c := &vfWrapCase{text: []rune{'a', 'a', 'a'}, paraDir: di.DirectionLTR}
		if vfChoice("rtl", 2) == 1 {
			c.paraDir = di.DirectionRTL
		}
		t := tag
		run := vfShapedRun(0, 3, c.paraDir, kind, &t)
		c.runs = []Output{run}
		c.orig = vfCopyRuns(c.runs)
		return c, c.runs
	}
	kinds := [...]int{0, 1, 5}
	a, _ := mk(kinds[vfChoice("firstKind", 3)], 100)
	b, _ := mk(kinds[vfChoice("secondKind", 3)], 200)
	cfg := WrapConfig{Direction: b.paraDir, BreakPolicy: LineBreakPolicy(vfInt("policy", 0, 2))}
	w1, w2 := vfInt("maxWidth1", 0, 12), vfInt("maxWidth2", 0, 12)
	var used, fresh LineWrapper
	cfgA := cfg
	cfgA.Direction = a.paraDir
	used.WrapParagraph(cfgA, w1, a.text, NewSliceIterator(a.runs))
	got, gt := used.WrapParagraph(cfg, w2, b.text, NewSliceIterator(vfCopyRuns(b.orig)))
	want, wt := fresh.WrapParagraph(cfg, w2, b.text, NewSliceIterator(vfCopyRuns(b.orig)))
	vfAssert(gt == wt && len(got) == len(want), "reused LineWrapper: different line count or truncation")
	for i := range got {
		vfAssert(len(got[i]) == len(want[i]), "reused LineWrapper: different number of runs on a line")
		for j := range got[i] {
			g, w := got[i][j], want[i][j]
			vfAssert(g.Runes == w.Runes && len(g.Glyphs) == len(w.Glyphs) && g.Advance == w.Advance && g.VisualIndex == w.VisualIndex, "reused LineWrapper returns a different run than a fresh one")
			for k := range g.Glyphs {
				vfAssert(g.Glyphs[k].GlyphID == w.Glyphs[k].GlyphID, "reused LineWrapper returns different glyphs than a fresh one")
			}
		}
	}
	vfReach("end")
}

// H-C08-truncator: the truncator's place in the visual order: text "aa" as 1..2 runs of either direction,
// truncator of either direction, truncation forced (one line, TextContinues).
func VfH_C08_truncator() {
	vfWrapTruncOpposite = true
	c := vfWrapSetupX(2, 2, 1, false, false)
	vfAssume(c.config.TruncateAfterLines == 1)
	vfAssume(c.config.TextContinues)
	var lw LineWrapper
	lines, truncated := lw.WrapParagraph(c.config, c.maxWidth, c.text, NewSliceIterator(c.runs))
	c.vfCheckLines(lines, truncated)
	vfReach("end")
}

package main

import (
	"fmt"
	"go/constant"
	"go/token"
	"go/types"
	"math"
	"regexp"
	"strings"
	"sync/atomic"
	"time"

	"golang.org/x/tools/go/ssa"
)

type Config struct {
	MergeDefault     bool
	MergeMaxBlocks   int
	MergeMaxOutcomes int
	Policy           map[string]string // function name (ssa String()) -> "merge" | "fork"
	Unwind           int               // max visits of one block per frame
	MaxDepth         int
	MaxSteps         int
	MaxPaths         int
	FeasMs           int // feasibility query timeout
	FinalMs          int // final (violation) query timeout
	Verbose          int
	StopOnViol       bool
	Known            map[string]bool // known-finding ids
	AllocBound       int             // explored bound for symbolic make sizes (elements)
	AllocLimit       int             // sizes above this are reported as allocation out of proportion
	PtrChoice        bool            // allow guarded pointer choices when merging
	LazyFeas         bool            // do not query feasibility at branches that will be merged
	SplitDims        []int           // sizes of the case-split dimensions the prefix was drawn from
	Summarise        map[string]bool // pure functions evaluated per constant leaf of an ite-tree argument
	Thorough         bool
	Deadline         time.Time
	OKSampleMax      int
	OnlyLabel        *regexp.Regexp // violations whose label does not match belong to a sibling property's check
	Stop             *atomic.Bool   // set when another case of the same check found a violation
}

type Stats struct {
	Steps, Forks, Merges, MergeFails, Paths, Calls int
	PathsOK, PathsViol, PathsDead, PathsKnown      int
	PathsForeign                                   int
}

type Event struct {
	Kind string // "unsupported","unwind","fuel","unknown","frozen-write","init-failed"
	Msg  string
}

type PanicInfo struct {
	Kind string // "assert","runtime","explicit"
	Msg  string
	Site string
	in   ssa.Instruction // Site is computed lazily from this
}

func (pi *PanicInfo) where() string {
	if pi.Site == "" && pi.in != nil {
		pi.Site = site(pi.in)
	}
	return pi.Site
}

type OutKind uint8

const (
	OReturn OutKind = iota
	OPanic
	OStop
	ODead
)

type Outcome struct {
	kind  OutKind
	st    *State
	fr    *Frame
	val   Value // return value (single value or *StructV tuple)
	pinfo *PanicInfo
}

type deferRec struct {
	fn     *FuncV
	invoke *types.Func
	args   []Value
	site   ssa.Instruction
}

type Frame struct {
	fn     *ssa.Function
	info   *FnInfo
	regs   []Value
	defers []deferRec
	visits map[int]int
	prev   *ssa.BasicBlock
	result Value // for Recover-less recovered panics
}

func (fr *Frame) clone() *Frame {
	n := &Frame{fn: fr.fn, info: fr.info, regs: append([]Value(nil), fr.regs...), defers: append([]deferRec(nil), fr.defers...), prev: fr.prev}
	n.visits = make(map[int]int, len(fr.visits))
	for k, v := range fr.visits {
		n.visits[k] = v
	}
	return n
}

type FnInfo struct {
	num       map[ssa.Value]int
	nregs     int
	ipdom     []*ssa.BasicBlock // per block index; nil => exit
	mergeable map[int]int       // block index -> 0 unknown, 1 yes, 2 no
	firstNon  []int             // index of first non-phi instr per block
	reach     [][]uint64        // reach[b] = blocks reachable from b (bitset), lazily computed
	ctrl      map[int]int       // block index -> 1 loop-controlling branch, 2 not
}

type PathResult struct {
	Kind   string // "ok","violation","known","dead","inconclusive"
	Label  string
	Site   string
	Known  string
	Model  []DrawVal
	Covers []string
}

type OKSample struct {
	Model   []DrawVal
	Observe []DrawVal
}

type DrawVal struct {
	Name string   `json:"n"`
	Val  uint64   `json:"v"`
	Args []uint64 `json:"a,omitempty"`
}

type Exec struct {
	ctx           *Ctx
	sol           *Solver
	prog          *ssa.Program
	cfg           Config
	fninfo        map[*ssa.Function]*FnInfo
	globals       map[*ssa.Global]*Object
	pkgInit       map[*ssa.Package]int
	strCache      map[string]*StrV
	stats         Stats
	events        []Event
	results       []PathResult
	epochs        int
	nobj          int
	entered       map[string]int
	covers        map[string]int
	stopAll       bool
	pastDeadline  bool
	sizes         types.Sizes
	typeIDs       map[string]int
	hooks         map[string]*ssa.Function // function full name -> replacement
	nFeas         int
	cutKnown      map[string]int
	initTarget    *ssa.Function
	notes         []string
	inInit        int
	lastFn        *ssa.Function
	stoppedByPeer bool
	allObjs       []*Object
	summarising   int
	okSamples     []OKSample
}

func NewExec(prog *ssa.Program, cfg Config, solverBin, logPath string) (*Exec, error) {
	ctx := NewCtx()
	sol, err := NewSolver(ctx, solverBin, logPath)
	if err != nil {
		return nil, err
	}
	return &Exec{ctx: ctx, sol: sol, prog: prog, cfg: cfg, fninfo: map[*ssa.Function]*FnInfo{},
		globals: map[*ssa.Global]*Object{}, pkgInit: map[*ssa.Package]int{}, strCache: map[string]*StrV{},
		entered: map[string]int{}, covers: map[string]int{}, sizes: types.SizesFor("gc", "amd64"),
		typeIDs: map[string]int{}, hooks: map[string]*ssa.Function{}, cutKnown: map[string]int{}}, nil
}

func (e *Exec) event(kind, msg string) {
	for _, ev := range e.events {
		if ev.Kind == kind && ev.Msg == msg {
			return
		}
	}
	e.events = append(e.events, Event{kind, msg})
	if e.cfg.Verbose > 0 {
		fmt.Printf("  [event] %s: %s\n", kind, msg)
	}
}

// ---- function info ----

func (e *Exec) info(fn *ssa.Function) *FnInfo {
	if fi, ok := e.fninfo[fn]; ok {
		return fi
	}
	fi := &FnInfo{num: map[ssa.Value]int{}, mergeable: map[int]int{}, ctrl: map[int]int{}}
	n := 0
	for _, p := range fn.Params {
		fi.num[p] = n
		n++
	}
	for _, p := range fn.FreeVars {
		fi.num[p] = n
		n++
	}
	for _, b := range fn.Blocks {
		first := 0
		for i, in := range b.Instrs {
			if _, isPhi := in.(*ssa.Phi); isPhi {
				first = i + 1
			}
			if v, ok := in.(ssa.Value); ok {
				fi.num[v] = n
				n++
			}
		}
		fi.firstNon = append(fi.firstNon, first)
	}
	fi.nregs = n
	fi.ipdom = computeIPDom(fn)
	e.fninfo[fn] = fi
	return fi
}

// computeIPDom computes immediate post-dominators (nil = virtual exit).
func computeIPDom(fn *ssa.Function) []*ssa.BasicBlock {
	n := len(fn.Blocks)
	// pdom sets as bitsets over n+1 nodes (n = virtual exit)
	words := (n + 1 + 63) / 64
	full := make([]uint64, words)
	for i := 0; i <= n; i++ {
		full[i/64] |= 1 << uint(i%64)
	}
	pd := make([][]uint64, n+1)
	for i := 0; i < n; i++ {
		pd[i] = append([]uint64(nil), full...)
	}
	pd[n] = make([]uint64, words)
	pd[n][n/64] |= 1 << uint(n%64)
	changed := true
	tmp := make([]uint64, words)
	for changed {
		changed = false
		for i := n - 1; i >= 0; i-- {
			b := fn.Blocks[i]
			for w := range tmp {
				tmp[w] = ^uint64(0)
			}
			if len(b.Succs) == 0 {
				copy(tmp, pd[n])
			} else {
				for _, s := range b.Succs {
					for w := range tmp {
						tmp[w] &= pd[s.Index][w]
					}
				}
			}
			tmp[i/64] |= 1 << uint(i%64)
			for w := range tmp {
				if tmp[w] != pd[i][w] {
					changed = true
					pd[i][w] = tmp[w]
				}
			}
		}
	}
	cnt := func(s []uint64) int {
		c := 0
		for _, w := range s {
			c += popcount(w)
		}
		return c
	}
	res := make([]*ssa.BasicBlock, n)
	for i := 0; i < n; i++ {
		want := cnt(pd[i]) - 1
		res[i] = nil
		for j := 0; j < n; j++ {
			if j != i && pd[i][j/64]&(1<<uint(j%64)) != 0 && cnt(pd[j]) == want {
				res[i] = fn.Blocks[j]
				break
			}
		}
	}
	return res
}

// regionOK reports whether the region from blk's successors up to (excluding) stop is acyclic and small.
func (e *Exec) regionOK(fn *ssa.Function, fi *FnInfo, blk *ssa.BasicBlock, stop *ssa.BasicBlock) bool {
	if r := fi.mergeable[blk.Index]; r != 0 {
		return r == 1
	}
	color := map[int]int{}
	count := 0
	ok := true
	var dfs func(b *ssa.BasicBlock)
	dfs = func(b *ssa.BasicBlock) {
		if !ok || b == stop {
			return
		}
		if b == blk {
			ok = false
			return
		}
		switch color[b.Index] {
		case 1:
			ok = false
			return
		case 2:
			return
		}
		color[b.Index] = 1
		count++
		if count > e.cfg.MergeMaxBlocks {
			ok = false
			return
		}
		for _, s := range b.Succs {
			dfs(s)
		}
		color[b.Index] = 2
	}
	for _, s := range blk.Succs {
		dfs(s)
	}
	if ok {
		fi.mergeable[blk.Index] = 1
	} else {
		fi.mergeable[blk.Index] = 2
	}
	return ok
}

// ---- evaluation of operands ----

func (e *Exec) eval(st *State, fr *Frame, v ssa.Value) Value {
	switch x := v.(type) {
	case *ssa.Const:
		return e.constVal(x)
	case *ssa.Global:
		e.ensureInit(x.Pkg)
		return &PtrV{Obj: e.globalObj(x)}
	case *ssa.Function:
		return &FuncV{Fn: x}
	case *ssa.Builtin:
		return &FuncV{Builtin: x}
	}
	i, ok := fr.info.num[v]
	if !ok {
		panic(fmt.Sprintf("internal: no register for %s in %s", v.Name(), fr.fn))
	}
	r := fr.regs[i]
	if r == nil {
		panic(fmt.Sprintf("internal: register %s unset in %s", v.Name(), fr.fn))
	}
	if t, ok := r.(*Term); ok && len(st.bind) > 0 {
		return e.resolve(st, t)
	}
	return r
}

func (e *Exec) globalObj(g *ssa.Global) *Object {
	if o, ok := e.globals[g]; ok {
		return o
	}
	o := e.newObject(g.Type().(*types.Pointer).Elem(), g.String())
	e.globals[g] = o
	return o
}

func (e *Exec) constVal(c *ssa.Const) Value {
	t := c.Type()
	if c.Value == nil {
		return e.zero(t)
	}
	switch u := t.Underlying().(type) {
	case *types.Basic:
		switch {
		case u.Info()&types.IsBoolean != 0:
			return e.ctx.Bool(constant.BoolVal(c.Value))
		case u.Info()&types.IsInteger != 0:
			iv := constant.ToInt(c.Value)
			if i, ok := constant.Int64Val(iv); ok {
				return e.ctx.BVConst(uint64(i), intWidth(u))
			}
			if i, ok := constant.Uint64Val(iv); ok {
				return e.ctx.BVConst(i, intWidth(u))
			}
			panic(unsupported("integer constant out of range"))
		case u.Info()&types.IsFloat != 0:
			f, _ := constant.Float64Val(c.Value)
			if u.Kind() == types.Float32 {
				f32, _ := constant.Float32Val(c.Value)
				return e.ctx.F32Const(f32)
			}
			return e.ctx.F64Const(f)
		case u.Info()&types.IsString != 0:
			return e.strConst(constant.StringVal(c.Value))
		}
	case *types.Interface:
		// typed constant in interface position does not occur in SSA (MakeInterface is explicit)
	}
	panic(unsupported("constant of type " + t.String()))
}

func (e *Exec) setReg(fr *Frame, v ssa.Value, val Value) {
	fr.regs[fr.info.num[v]] = val
}

// ---- solver helpers ----

func (e *Exec) check(st *State, extra *Term) string {
	e.nFeas++
	if extra != nil {
		// syntactic shortcut: the negation of extra is already a conjunct of the path condition
		neg := e.ctx.Not(extra)
		for _, t := range st.pc {
			if t == neg {
				e.sol.nUnsat++
				e.sol.nSyntactic++
				return "unsat"
			}
		}
	}
	if !e.cfg.Deadline.IsZero() && time.Now().After(e.cfg.Deadline) {
		// slow solver queries can keep a case far beyond its budget between two step-count checks:
		// flag it here, the step loop stops at the next instruction
		e.pastDeadline = true
	}
	return e.sol.Check(st.pc, extra, e.cfg.FeasMs)
}

// require: see package doc. Returns false when the non-panicking continuation is infeasible.
func (e *Exec) require(st *State, fr *Frame, cond *Term, pi *PanicInfo, res *[]Outcome) bool {
	if cond.IsTrue() {
		return true
	}
	if cond.IsFalse() {
		*res = append(*res, e.unwindPanic(st, fr, pi, nil)...)
		return false
	}
	r := e.check(st, e.ctx.Not(cond))
	if r == "unsat" {
		return true
	}
	ps := e.fork(st)
	ps.assume(e.ctx.Not(cond))
	*res = append(*res, e.unwindPanic(ps, fr.clone(), pi, nil)...)
	if e.check(st, cond) == "unsat" {
		return false
	}
	st.assume(cond)
	return true
}

func site(in ssa.Instruction) string {
	fn := in.Parent()
	pos := in.Pos()
	if pos == token.NoPos {
		// look for a nearby position
		for _, x := range in.Block().Instrs {
			if x.Pos() != token.NoPos {
				pos = x.Pos()
				if x == in {
					break
				}
			}
		}
	}
	p := fn.Prog.Fset.Position(pos)
	f := p.Filename
	if i := strings.LastIndex(f, "/"); i >= 0 {
		f = f[i+1:]
	}
	return fmt.Sprintf("%s (%s:%d)", fn.String(), f, p.Line)
}

func rtPanic(msg string, in ssa.Instruction) *PanicInfo {
	return &PanicInfo{Kind: "runtime", Msg: msg, in: in}
}

// ---- calls ----

func (e *Exec) callFn(st *State, fn *ssa.Function, args []Value, bind []Value, callSite ssa.Instruction) (outs []Outcome) {
	if h, ok := e.hooks[fn.String()]; ok {
		fn = h
	}
	if e.cfg.Summarise[fn.String()] && e.summarising == 0 {
		if r, ok := e.summarise(st, fn, args, bind, callSite); ok {
			return r
		}
	}
	if r, handled := e.intrinsic(st, fn, args, callSite); handled {
		return r
	}
	if fn.Synthetic == "package initializer" && fn != e.initTarget {
		// dependencies are initialised lazily, on first use
		return ret(st, nil)
	}
	if fn.Pkg != nil {
		e.ensureInit(fn.Pkg)
	}
	if fn.Blocks == nil {
		panic(unsupported("call to external function " + fn.String()))
	}
	if st.depth >= e.cfg.MaxDepth {
		panic(unsupported("call depth limit at " + fn.String()))
	}
	e.stats.Calls++
	e.entered[fn.String()]++
	e.lastFn = fn
	fi := e.info(fn)
	fr := &Frame{fn: fn, info: fi, regs: make([]Value, fi.nregs), visits: map[int]int{}}
	for i := range fn.Params {
		fr.regs[i] = args[i]
	}
	for i := range fn.FreeVars {
		fr.regs[len(fn.Params)+i] = bind[i]
	}
	st.depth++
	basePC := len(st.pc)
	outs = e.runBlock(st, fr, fn.Blocks[0], 0, nil)
	for i := range outs {
		outs[i].st.depth--
		outs[i].fr = nil
	}
	if len(outs) > 1 && e.policy(fn) {
		outs = e.mergeReturns(outs, basePC)
	}
	return outs
}

func (e *Exec) policy(fn *ssa.Function) bool {
	if p, ok := e.cfg.Policy[fn.String()]; ok {
		return p == "merge"
	}
	if fn.Pkg != nil {
		if p, ok := e.cfg.Policy[fn.Pkg.Pkg.Path()+".*"]; ok {
			return p == "merge"
		}
	}
	return e.cfg.MergeDefault
}

// basePC is the length of the common path-condition prefix (the pc when the call/branch started).
func (e *Exec) mergeReturns(outs []Outcome, basePC int) []Outcome {
	var rets, rest []Outcome
	for _, o := range outs {
		if o.kind == OReturn {
			rets = append(rets, o)
		} else {
			rest = append(rest, o)
		}
	}
	if len(rets) < 2 || len(rets) > e.cfg.MergeMaxOutcomes {
		return outs
	}
	merged := e.mergeOutcomes(rets, basePC)
	return append(merged, rest...)
}

func (e *Exec) mergeOutcomes(outs []Outcome, basePC int) []Outcome {
	var res []Outcome
	for _, o := range outs {
		done := false
		for i := range res {
			if m, ok := e.mergeTwo(res[i], o, basePC); ok {
				res[i] = m
				done = true
				break
			}
		}
		if !done {
			res = append(res, o)
		}
	}
	return res
}

func (e *Exec) mergeTwo(a, b Outcome, basePC int) (Outcome, bool) {
	sa, sb := a.st, b.st
	if len(sa.pc) < basePC || len(sb.pc) < basePC {
		return a, false
	}
	for i := 0; i < basePC; i++ {
		if sa.pc[i] != sb.pc[i] {
			return a, false
		}
	}
	if len(sa.draws) != len(sb.draws) || len(sa.panics) != len(sb.panics) || sa.npre != sb.npre || !sameObs(sa.observes, sb.observes) {
		e.stats.MergeFails++
		return a, false
	}
	for i := range sa.draws {
		if sa.draws[i].Name != sb.draws[i].Name || sa.draws[i].Kind == "choice" && sa.draws[i].T != sb.draws[i].T {
			e.stats.MergeFails++
			return a, false
		}
	}
	for i := range sa.panics {
		if sa.panics[i] != sb.panics[i] {
			return a, false
		}
	}
	if !sameStrings(sa.covers, sb.covers) {
		// covers differ: keep apart only if it matters; union is an over-approximation of
		// "reached on some input of the merged path", which is what a cover witness means.
	}
	ga := e.ctx.AndAll(sa.pc[basePC:])
	gb := e.ctx.AndAll(sb.pc[basePC:])
	epoch := e.newEpoch()
	// values
	var val Value
	if a.kind == OReturn {
		v, ok := e.mergeValue(ga, a.val, b.val, 0)
		if !ok {
			e.stats.MergeFails++
			return a, false
		}
		val = v
	}
	var fr *Frame
	if a.kind == OStop {
		if len(a.fr.defers) != len(b.fr.defers) {
			e.stats.MergeFails++
			return a, false
		}
		regs := make([]Value, len(a.fr.regs))
		for i := range regs {
			v, ok := e.mergeValue(ga, a.fr.regs[i], b.fr.regs[i], 0)
			if !ok {
				e.stats.MergeFails++
				return a, false
			}
			regs[i] = v
		}
		fr = &Frame{fn: a.fr.fn, info: a.fr.info, regs: regs, defers: a.fr.defers, prev: a.fr.prev, visits: map[int]int{}}
		for k, v := range a.fr.visits {
			fr.visits[k] = v
		}
		for k, v := range b.fr.visits {
			if v > fr.visits[k] {
				fr.visits[k] = v
			}
		}
	}
	heap := make(map[*Object]Value, len(sa.heap))
	for o, va := range sa.heap {
		vb, ok := sb.heap[o]
		if !ok {
			vb = e.root(sb, o)
			if isFresh(o, sa, sb) {
				heap[o] = va
				continue
			}
		}
		if va == vb {
			heap[o] = va
			continue
		}
		m, ok := e.mergeValue(ga, va, vb, epoch)
		if !ok {
			e.stats.MergeFails++
			return a, false
		}
		heap[o] = m
	}
	for o, vb := range sb.heap {
		if _, ok := sa.heap[o]; ok {
			continue
		}
		va := e.root(sa, o)
		if va == vb || isFresh(o, sb, sa) {
			heap[o] = vb
			continue
		}
		m, ok := e.mergeValue(ga, va, vb, epoch)
		if !ok {
			e.stats.MergeFails++
			return a, false
		}
		heap[o] = m
	}
	draws := make([]Draw, len(sa.draws))
	for i := range draws {
		draws[i] = sa.draws[i]
		if sa.draws[i].T != sb.draws[i].T {
			draws[i].T = e.ctx.Ite(ga, sa.draws[i].T, sb.draws[i].T)
		}
	}
	obs := make([]Draw, len(sa.observes))
	for i := range obs {
		obs[i] = sa.observes[i]
		if sa.observes[i].T != sb.observes[i].T {
			obs[i].T = e.ctx.Ite(ga, sa.observes[i].T, sb.observes[i].T)
		}
	}
	pc := append([]*Term(nil), sa.pc[:basePC]...)
	pc = append(pc, e.ctx.Or(ga, gb))
	ns := &State{pc: pc, heap: heap, epoch: epoch, draws: draws, covers: unionStrings(sa.covers, sb.covers),
		panics: sa.panics, steps: maxInt(sa.steps, sb.steps), prefix: sa.prefix, npre: sa.npre, depth: sa.depth, observes: obs, ctx: sa.ctx, bind: commonBind(sa.bind, sb.bind)}
	e.stats.Merges++
	return Outcome{kind: a.kind, st: ns, fr: fr, val: val}, true
}

// isFresh: the object was allocated on the path of "in" only (it has no base-layer value and the other state never saw it).
func isFresh(o *Object, in, other *State) bool {
	return o.init == nil
}

func sameStrings(a, b []string) bool {
	if len(a) != len(b) {
		return false
	}
	for i := range a {
		if a[i] != b[i] {
			return false
		}
	}
	return true
}

func unionStrings(a, b []string) []string {
	res := append([]string(nil), a...)
	for _, x := range b {
		found := false
		for _, y := range res {
			if x == y {
				found = true
				break
			}
		}
		if !found {
			res = append(res, x)
		}
	}
	return res
}

func maxInt(a, b int) int {
	if a > b {
		return a
	}
	return b
}

// ---- panics, defers ----

func (e *Exec) unwindPanic(st *State, fr *Frame, pi *PanicInfo, pval Value) []Outcome {
	if pval == nil {
		pval = &IfaceV{T: types.Universe.Lookup("error").Type(), V: e.strConst(pi.Msg)}
	}
	slot := &PanicSlot{Val: pval, Info: pi}
	st.panics = append(st.panics, slot)
	var res []Outcome
	for _, s := range e.runDefers(st, fr, len(fr.defers)-1) {
		top := s.panics[len(s.panics)-1]
		s.panics = s.panics[:len(s.panics)-1]
		if top.Recovered {
			if fr.fn.Recover != nil {
				nfr := fr.clone()
				nfr.defers = nil
				res = append(res, e.runBlock(s, nfr, fr.fn.Recover, 0, nil)...)
			} else {
				res = append(res, Outcome{kind: OReturn, st: s, val: e.zeroResults(fr.fn)})
			}
		} else {
			o := Outcome{kind: OPanic, st: s, pinfo: top.Info, val: top.Val}
			if s.depth == 1 && e.inInit == 0 {
				// the panic leaves the harness: finish the path now (eager reporting, early stop)
				e.finishPath(o)
				continue
			}
			res = append(res, o)
		}
	}
	return res
}

func (e *Exec) zeroResults(fn *ssa.Function) Value {
	rs := fn.Signature.Results()
	switch rs.Len() {
	case 0:
		return nil
	case 1:
		return e.zero(rs.At(0).Type())
	}
	return e.zero(rs)
}

// runDefers runs fr.defers[k], k-1, ..., 0 and returns the resulting states.
func (e *Exec) runDefers(st *State, fr *Frame, k int) []*State {
	if k < 0 {
		return []*State{st}
	}
	d := fr.defers[k]
	var outs []Outcome
	if d.fn.Builtin != nil {
		outs = e.callBuiltin(st, fr, d.fn.Builtin, d.args, nil, nil)
	} else {
		st.depth++ // mark: recover() is legal in the callee
		outs = e.callFnDeferred(st, d)
	}
	var res []*State
	for _, o := range outs {
		switch o.kind {
		case OReturn:
			res = append(res, e.runDefers(o.st, fr, k-1)...)
		case OPanic:
			// a new panic replaces the current one
			o.st.panics[len(o.st.panics)-1] = &PanicSlot{Val: o.val, Info: o.pinfo}
			res = append(res, e.runDefers(o.st, fr, k-1)...)
		case ODead:
		}
	}
	return res
}

func (e *Exec) callFnDeferred(st *State, d deferRec) []Outcome {
	outs := e.callFn(st, d.fn.Fn, d.args, d.fn.Bind, d.site)
	for i := range outs {
		outs[i].st.depth--
	}
	return outs
}

// ---- main loop ----

func (e *Exec) enter(st *State, fr *Frame, from, to *ssa.BasicBlock) bool {
	// phis
	fi := fr.info
	nphi := fi.firstNon[to.Index]
	if nphi > 0 {
		edge := -1
		for i, p := range to.Preds {
			if p == from {
				edge = i
				break
			}
		}
		vals := make([]Value, 0, nphi)
		for _, in := range to.Instrs[:nphi] {
			if phi, ok := in.(*ssa.Phi); ok {
				vals = append(vals, e.eval(st, fr, phi.Edges[edge]))
			} else {
				vals = append(vals, nil)
			}
		}
		for i, in := range to.Instrs[:nphi] {
			if phi, ok := in.(*ssa.Phi); ok {
				e.setReg(fr, phi, vals[i])
			}
		}
	}
	fr.prev = from
	return true
}

func (e *Exec) runBlock(st *State, fr *Frame, blk *ssa.BasicBlock, idx int, stop *ssa.BasicBlock) (res []Outcome) {
	defer func() {
		if r := recover(); r != nil {
			if e.inInit > 0 {
				panic(r)
			}
			switch u := r.(type) {
			case unsupportedErr:
				e.event("unsupported", u.msg+" [in "+fr.fn.String()+"]")
			case frozenViolation:
				res = append(res, Outcome{kind: OPanic, st: st, pinfo: &PanicInfo{Kind: "frozen", Msg: "write to shared object " + u.obj.name, Site: fr.fn.String()}})
			default:
				panic(r)
			}
		}
	}()
	for {
		if e.stopAll {
			return res
		}
		if e.cfg.Stop != nil && e.stats.Steps&0xff == 0 && e.cfg.Stop.Load() {
			e.stopAll = true
			e.stoppedByPeer = true
			return res
		}
		instrs := blk.Instrs
		var next *ssa.BasicBlock
		for idx < len(instrs) {
			in := instrs[idx]
			idx++
			st.steps++
			e.stats.Steps++
			if e.pastDeadline || (e.stats.Steps&0xfff == 0 && !e.cfg.Deadline.IsZero() && time.Now().After(e.cfg.Deadline)) {
				e.pastDeadline = false
				e.event("budget", "wall-clock budget of this case exhausted")
				e.stopAll = true
				return res
			}
			if st.steps > e.cfg.MaxSteps {
				e.event("fuel", fmt.Sprintf("step budget %d exhausted in %s", e.cfg.MaxSteps, fr.fn))
				return res
			}
			switch x := in.(type) {
			case *ssa.DebugRef:
			case *ssa.Phi:
			case *ssa.Call:
				outs := e.doCall(st, fr, x.Common(), x)
				cont := outs[:0:0]
				for _, o := range outs {
					switch o.kind {
					case OReturn:
						cont = append(cont, o)
					case OPanic:
						res = append(res, e.unwindPanic(o.st, fr.clone(), o.pinfo, o.val)...)
					case ODead:
					}
				}
				if len(cont) == 0 {
					return res
				}
				for i := 0; i < len(cont)-1; i++ {
					nfr := fr.clone()
					e.setRegIf(nfr, x, cont[i].val)
					res = append(res, e.runBlock(cont[i].st, nfr, blk, idx, stop)...)
				}
				last := cont[len(cont)-1]
				st = last.st
				e.setRegIf(fr, x, last.val)
			case *ssa.Defer:
				fr.defers = append(fr.defers, e.mkDefer(st, fr, x))
			case *ssa.RunDefers:
				st.panics = append(st.panics, &PanicSlot{})
				all := e.runDefers(st, fr, len(fr.defers)-1)
				var sts []*State
				for _, s := range all {
					top := s.panics[len(s.panics)-1]
					s.panics = s.panics[:len(s.panics)-1]
					switch {
					case top.Info == nil:
						sts = append(sts, s)
					case top.Recovered:
						if fr.fn.Recover != nil {
							nfr := fr.clone()
							nfr.defers = nil
							res = append(res, e.runBlock(s, nfr, fr.fn.Recover, 0, nil)...)
						} else {
							res = append(res, Outcome{kind: OReturn, st: s, val: e.zeroResults(fr.fn)})
						}
					default:
						res = append(res, Outcome{kind: OPanic, st: s, pinfo: top.Info, val: top.Val})
					}
				}
				fr.defers = nil
				if len(sts) == 0 {
					return res
				}
				for i := 0; i < len(sts)-1; i++ {
					res = append(res, e.runBlock(sts[i], fr.clone(), blk, idx, stop)...)
				}
				st = sts[len(sts)-1]
			case *ssa.Go:
				panic(unsupported("go statement in " + fr.fn.String()))
			case *ssa.Jump:
				next = blk.Succs[0]
			case *ssa.Return:
				var val Value
				switch len(x.Results) {
				case 0:
				case 1:
					val = e.eval(st, fr, x.Results[0])
				default:
					t := &StructV{F: make([]Value, len(x.Results))}
					for i, r := range x.Results {
						t.F[i] = e.eval(st, fr, r)
					}
					val = t
				}
				if st.depth == 1 && e.inInit == 0 {
					// the harness itself returns: finish the path now instead of keeping its state until
					// every other path is done (memory stays proportional to the DFS depth, not to the path count)
					e.finishPath(Outcome{kind: OReturn, st: st, val: val})
					return res
				}
				res = append(res, Outcome{kind: OReturn, st: st, val: val})
				return res
			case *ssa.Panic:
				v := e.eval(st, fr, x.X)
				pi := &PanicInfo{Kind: "explicit", Msg: e.panicMsg(v), in: x}
				res = append(res, e.unwindPanic(st, fr, pi, v)...)
				return res
			case *ssa.If:
				c := e.eval(st, fr, x.Cond).(*Term)
				if c.IsTrue() {
					next = blk.Succs[0]
					break
				}
				if c.IsFalse() {
					next = blk.Succs[1]
					break
				}
				tOK, fOK := true, true
				lazy := false
				if e.cfg.LazyFeas && !loopControlling(fr.fn, fr.info, blk) {
					// a mergeable diamond: both sides are executed and merged anyway; skipping the two
					// feasibility queries is sound (an infeasible side only contributes under a false guard)
					if j := fr.info.ipdom[blk.Index]; j != nil && e.policy(fr.fn) && e.regionOK(fr.fn, fr.info, blk, j) {
						lazy = true
					}
				}
				if !lazy {
					tOK = e.check(st, c) != "unsat"
					if tOK {
						fOK = e.check(st, e.ctx.Not(c)) != "unsat"
					}
				}
				if tOK && !fOK {
					next = blk.Succs[0]
					break
				}
				if fOK && !tOK {
					next = blk.Succs[1]
					break
				}
				// both feasible: a symbolic decision. If this branch decides whether a loop is left,
				// bound how often it may do so per frame (the unwinding assertion).
				if loopControlling(fr.fn, fr.info, blk) {
					fr.visits[blk.Index]++
				}
				if fr.visits[blk.Index] > e.cfg.Unwind {
					e.event("unwind", fmt.Sprintf("unwinding bound %d exceeded at block %d of %s", e.cfg.Unwind, blk.Index, fr.fn))
					return res
				}
				basePC := len(st.pc)
				stF := e.fork(st)
				stF.assume(e.ctx.Not(c))
				st.assume(c)
				frF := fr.clone()
				j := fr.info.ipdom[blk.Index]
				if j != nil && e.policy(fr.fn) && e.regionOK(fr.fn, fr.info, blk, j) {
					var stops []Outcome
					for _, side := range []struct {
						s  *State
						f  *Frame
						to *ssa.BasicBlock
					}{{st, fr, blk.Succs[0]}, {stF, frF, blk.Succs[1]}} {
						var outs []Outcome
						if !e.enter(side.s, side.f, blk, side.to) {
							continue
						}
						if side.to == j {
							outs = []Outcome{{kind: OStop, st: side.s, fr: side.f}}
						} else {
							outs = e.runBlock(side.s, side.f, side.to, fr.info.firstNon[side.to.Index], j)
						}
						for _, o := range outs {
							if o.kind == OStop {
								stops = append(stops, o)
							} else {
								res = append(res, o)
							}
						}
					}
					merged := stops
					if len(stops) <= e.cfg.MergeMaxOutcomes {
						merged = e.mergeOutcomes(stops, basePC)
					}
					for _, m := range merged {
						if j == stop {
							res = append(res, m)
							continue
						}
						res = append(res, e.runBlock(m.st, m.fr, j, fr.info.firstNon[j.Index], stop)...)
					}
					return res
				}
				// fork
				if e.enter(stF, frF, blk, blk.Succs[1]) {
					if blk.Succs[1] == stop {
						res = append(res, Outcome{kind: OStop, st: stF, fr: frF})
					} else {
						res = append(res, e.runBlock(stF, frF, blk.Succs[1], fr.info.firstNon[blk.Succs[1].Index], stop)...)
					}
				}
				next = blk.Succs[0]
			default:
				alts, ok := e.step(st, fr, in, &res)
				if !ok {
					return res
				}
				if alts != nil {
					for i := 0; i < len(alts)-1; i++ {
						res = append(res, e.runBlock(alts[i].st, alts[i].fr, blk, idx, stop)...)
					}
					st, fr = alts[len(alts)-1].st, alts[len(alts)-1].fr
				}
			}
			if next != nil {
				break
			}
		}
		if next == nil {
			panic("internal: block without terminator in " + fr.fn.String())
		}
		if !e.enter(st, fr, blk, next) {
			return res
		}
		if next == stop {
			res = append(res, Outcome{kind: OStop, st: st, fr: fr})
			return res
		}
		blk = next
		idx = fr.info.firstNon[blk.Index]
	}
}

func (e *Exec) setRegIf(fr *Frame, x *ssa.Call, v Value) {
	if v != nil {
		e.setReg(fr, x, v)
	} else if x.Type() != nil {
		if tup, ok := x.Type().(*types.Tuple); ok && tup.Len() == 0 {
			return
		}
		e.setReg(fr, x, e.zero(x.Type()))
	}
}

func (e *Exec) panicMsg(v Value) string {
	if iv, ok := v.(*IfaceV); ok && iv.T != nil {
		if s, ok := iv.V.(*StrV); ok {
			if c, ok := concreteStr(s); ok {
				return c
			}
		}
		return "panic(" + iv.T.String() + ")"
	}
	return "panic"
}

func (e *Exec) mkDefer(st *State, fr *Frame, d *ssa.Defer) deferRec {
	c := d.Common()
	rec := deferRec{site: d}
	if c.IsInvoke() {
		recv := e.eval(st, fr, c.Value).(*IfaceV)
		if recv.T == nil {
			panic(unsupported("defer of method on nil interface"))
		}
		fn := e.lookupMethod(recv.T, c.Method)
		rec.fn = &FuncV{Fn: fn}
		rec.args = append(rec.args, recv.V)
	} else {
		rec.fn = e.eval(st, fr, c.Value).(*FuncV)
	}
	for _, a := range c.Args {
		rec.args = append(rec.args, e.eval(st, fr, a))
	}
	return rec
}

func (e *Exec) lookupMethod(t types.Type, m *types.Func) *ssa.Function {
	sel := e.prog.MethodSets.MethodSet(t).Lookup(m.Pkg(), m.Name())
	if sel == nil {
		panic(unsupported(fmt.Sprintf("method %s not found on %s", m.Name(), t)))
	}
	fn := e.prog.MethodValue(sel)
	if fn == nil {
		panic(unsupported(fmt.Sprintf("abstract method %s on %s", m.Name(), t)))
	}
	return fn
}

func (e *Exec) doCall(st *State, fr *Frame, c *ssa.CallCommon, in ssa.Instruction) []Outcome {
	var args []Value
	cs := in
	if c.IsInvoke() {
		recv := e.eval(st, fr, c.Value).(*IfaceV)
		if recv.T == nil {
			return []Outcome{{kind: OPanic, st: st, pinfo: rtPanic("invalid memory address or nil pointer dereference (method call on nil interface)", in)}}
		}
		fn := e.lookupMethod(recv.T, c.Method)
		args = append(args, recv.V)
		for _, a := range c.Args {
			args = append(args, e.eval(st, fr, a))
		}
		return e.callFn(st, fn, args, nil, cs)
	}
	for _, a := range c.Args {
		args = append(args, e.eval(st, fr, a))
	}
	switch f := c.Value.(type) {
	case *ssa.Function:
		return e.callFn(st, f, args, nil, cs)
	case *ssa.Builtin:
		return e.callBuiltin(st, fr, f, args, c, in)
	}
	fv := e.eval(st, fr, c.Value).(*FuncV)
	if fv.Builtin != nil {
		return e.callBuiltin(st, fr, fv.Builtin, args, c, in)
	}
	if fv.Fn == nil {
		return []Outcome{{kind: OPanic, st: st, pinfo: rtPanic("invalid memory address or nil pointer dereference (nil func call)", in)}}
	}
	return e.callFn(st, fv.Fn, args, fv.Bind, cs)
}

// ---- package init ----

func (e *Exec) ensureInit(p *ssa.Package) {
	if p == nil || e.pkgInit[p] != 0 {
		return
	}
	e.pkgInit[p] = 1
	initFn := p.Func("init")
	if initFn == nil || initFn.Blocks == nil {
		e.pkgInit[p] = 2
		return
	}
	ist := e.newState()
	ist.depth = 0
	saveSteps, saveUnwind, saveT := e.cfg.MaxSteps, e.cfg.Unwind, e.initTarget
	e.inInit++
	defer func() { e.inInit-- }()
	func() {
		defer func() {
			if r := recover(); r != nil {
				if u, ok := r.(unsupportedErr); ok {
					e.cfg.MaxSteps, e.cfg.Unwind, e.initTarget = saveSteps, saveUnwind, saveT
					if isStdPkg(p.Pkg.Path()) {
						// partial initialisation of a standard-library package is tolerated
						// (typically reflection-based registries that the code under test never reads)
						for o, v := range ist.heap {
							o.init = v
						}
						e.pkgInit[p] = 2
						e.notes = append(e.notes, "partial init of "+p.Pkg.Path()+": "+u.msg)
						return
					}
					e.pkgInit[p] = 3
					where := ""
					if e.lastFn != nil {
						where = " [last function entered: " + e.lastFn.String() + "]"
					}
					e.event("init-failed", p.Pkg.Path()+": "+u.msg+where)
					return
				}
				panic(r)
			}
		}()
		e.cfg.MaxSteps = 1 << 40
		e.cfg.Unwind = 1 << 30
		e.initTarget = initFn
		outs := e.callFn(ist, initFn, nil, nil, nil)
		e.initTarget = saveT
		e.cfg.MaxSteps = saveSteps
		e.cfg.Unwind = saveUnwind
		if len(outs) != 1 || outs[0].kind != OReturn {
			e.pkgInit[p] = 3
			e.event("init-failed", fmt.Sprintf("%s: init had %d outcomes", p.Pkg.Path(), len(outs)))
			return
		}
		for o, v := range outs[0].st.heap {
			o.init = v
		}
		e.pkgInit[p] = 2
	}()
}

// ---- instruction stepping (non-control) ----

func (e *Exec) toI64(st *State, v Value, t types.Type) *Term {
	x := v.(*Term)
	if x.sort.W == 64 {
		return x
	}
	if isSigned(t) {
		return e.ctx.Sext(x, 64)
	}
	return e.ctx.Zext(x, 64)
}

type contAlt struct {
	st *State
	fr *Frame
}

func (e *Exec) step(st *State, fr *Frame, in ssa.Instruction, res *[]Outcome) ([]contAlt, bool) {
	if n, ok := in.(*ssa.Next); ok {
		return e.next(st, fr, n, res)
	}
	if r, ok := in.(*ssa.Range); ok {
		return e.rangeAlts(st, fr, r)
	}
	if u, ok := in.(*ssa.UnOp); ok && u.Op == token.MUL {
		if alts, handled := e.loadFork(st, fr, u); handled {
			return alts, len(alts) > 0
		}
	}
	if l, ok := in.(*ssa.Lookup); ok {
		if alts, handled := e.lookupFork(st, fr, l); handled {
			return alts, len(alts) > 0
		}
	}
	return nil, e.step1(st, fr, in, res)
}

func (e *Exec) step1(st *State, fr *Frame, in ssa.Instruction, res *[]Outcome) bool {
	c := e.ctx
	switch x := in.(type) {
	case *ssa.Alloc:
		o := e.newObject(x.Type().(*types.Pointer).Elem(), "new "+x.Comment)
		st.heap[o] = copyAgg(e.zero(o.typ), st.epoch)
		e.setReg(fr, x, &PtrV{Obj: o})
	case *ssa.Store:
		alts, ok := e.ptrAlts(e.eval(st, fr, x.Addr))
		if !ok {
			panic(unsupported("store through a non-pointer value"))
		}
		val := e.eval(st, fr, x.Val)
		nilG := c.False
		for _, a := range alts {
			if isNilPtr(a.P) {
				nilG = c.Or(nilG, a.G)
			}
		}
		if !e.require(st, fr, c.Not(nilG), rtPanic("invalid memory address or nil pointer dereference", in), res) {
			return false
		}
		for _, a := range alts {
			if !isNilPtr(a.P) {
				e.storeG(st, a.P, val, a.G)
			}
		}
	case *ssa.UnOp:
		return e.unop(st, fr, x, res)
	case *ssa.BinOp:
		return e.binop(st, fr, x, res)
	case *ssa.FieldAddr:
		alts, ok := e.ptrAlts(e.eval(st, fr, x.X))
		if !ok {
			panic(unsupported("field address of a non-pointer value"))
		}
		nilG := c.False
		var nalts []PtrAlt
		for _, a := range alts {
			if isNilPtr(a.P) {
				nilG = c.Or(nilG, a.G)
				continue
			}
			nalts = append(nalts, PtrAlt{a.G, &PtrV{Obj: a.P.Obj, Path: append(append([]PathElem(nil), a.P.Path...), PathElem{Field: x.Field})}})
		}
		if !e.require(st, fr, c.Not(nilG), rtPanic("invalid memory address or nil pointer dereference", in), res) {
			return false
		}
		e.setReg(fr, x, e.mkChoice(nalts))
	case *ssa.Field:
		s := e.eval(st, fr, x.X).(*StructV)
		e.setReg(fr, x, s.F[x.Field])
	case *ssa.IndexAddr:
		base := e.eval(st, fr, x.X)
		idx := e.toI64(st, e.eval(st, fr, x.Index), x.Index.Type())
		switch b := base.(type) {
		case *SliceV:
			if !e.require(st, fr, c.BvBin(OpUlt, idx, b.Len), rtPanic("index out of range", in), res) {
				return false
			}
			if b.Base == nil {
				panic("internal: index into nil slice passed the bounds check")
			}
			e.setReg(fr, x, &PtrV{Obj: b.Base.Obj, Path: append(append([]PathElem(nil), b.Base.Path...), PathElem{Field: -1, Idx: c.BvBin(OpAdd, b.Off, idx)})})
		case *PtrV:
			if isNilPtr(b) {
				return e.require(st, fr, c.False, rtPanic("invalid memory address or nil pointer dereference", in), res)
			}
			n := x.X.Type().Underlying().(*types.Pointer).Elem().Underlying().(*types.Array).Len()
			if !e.require(st, fr, c.BvBin(OpUlt, idx, c.BVConst(uint64(n), 64)), rtPanic("index out of range", in), res) {
				return false
			}
			e.setReg(fr, x, &PtrV{Obj: b.Obj, Path: append(append([]PathElem(nil), b.Path...), PathElem{Field: -1, Idx: idx})})
		default:
			panic(unsupported(fmt.Sprintf("IndexAddr on %T", base)))
		}
	case *ssa.Index:
		base := e.eval(st, fr, x.X)
		idx := e.toI64(st, e.eval(st, fr, x.Index), x.Index.Type())
		switch b := base.(type) {
		case *ArrayV:
			if !e.require(st, fr, c.BvBin(OpUlt, idx, c.BVConst(uint64(len(b.E)), 64)), rtPanic("index out of range", in), res) {
				return false
			}
			e.setReg(fr, x, e.walk(b, []PathElem{{Field: -1, Idx: idx}}))
		case *StrV:
			if !e.require(st, fr, c.BvBin(OpUlt, idx, b.Len), rtPanic("index out of range", in), res) {
				return false
			}
			e.setReg(fr, x, e.strByte(b, idx))
		default:
			panic(unsupported(fmt.Sprintf("Index on %T", base)))
		}
	case *ssa.Lookup:
		base := e.eval(st, fr, x.X)
		switch b := base.(type) {
		case *StrV:
			idx := e.toI64(st, e.eval(st, fr, x.Index), x.Index.Type())
			if !e.require(st, fr, c.BvBin(OpUlt, idx, b.Len), rtPanic("index out of range", in), res) {
				return false
			}
			e.setReg(fr, x, e.strByte(b, idx))
		case *MapV:
			k := e.eval(st, fr, x.Index)
			mt := x.X.Type().Underlying().(*types.Map)
			if _, isIface := mt.Key().Underlying().(*types.Interface); isIface {
				if _, ok := k.(*IfaceV); !ok {
					k = &IfaceV{T: x.Index.Type(), V: k}
				}
			}
			v, ok := e.mapLookup(st, b, k, mt.Elem())
			if x.CommaOk {
				e.setReg(fr, x, &StructV{F: []Value{v, ok}})
			} else {
				e.setReg(fr, x, v)
			}
		default:
			panic(unsupported(fmt.Sprintf("Lookup on %T", base)))
		}
	case *ssa.MapUpdate:
		m := e.eval(st, fr, x.Map).(*MapV)
		if m.Obj == nil {
			return e.require(st, fr, c.False, rtPanic("assignment to entry in nil map", in), res)
		}
		e.mapUpdate(st, m, e.eval(st, fr, x.Key), e.eval(st, fr, x.Value))
	case *ssa.MakeMap:
		o := e.newObject(x.Type(), "map")
		o.isMap = true
		st.heap[o] = &MapData{index: map[string]int{}, owner: st.epoch}
		e.setReg(fr, x, &MapV{Obj: o})
	case *ssa.MakeSlice:
		return e.makeSlice(st, fr, x, res)
	case *ssa.MakeClosure:
		fv := &FuncV{Fn: x.Fn.(*ssa.Function)}
		for _, b := range x.Bindings {
			fv.Bind = append(fv.Bind, e.eval(st, fr, b))
		}
		e.setReg(fr, x, fv)
	case *ssa.MakeInterface:
		v := e.eval(st, fr, x.X)
		e.setReg(fr, x, &IfaceV{T: x.X.Type(), V: v})
	case *ssa.ChangeInterface:
		e.setReg(fr, x, e.eval(st, fr, x.X))
	case *ssa.ChangeType:
		e.setReg(fr, x, e.eval(st, fr, x.X))
	case *ssa.Convert:
		return e.convert(st, fr, x, res)
	case *ssa.Slice:
		return e.sliceOp(st, fr, x, res)
	case *ssa.Extract:
		t := e.eval(st, fr, x.Tuple).(*StructV)
		e.setReg(fr, x, t.F[x.Index])
	case *ssa.TypeAssert:
		return e.typeAssert(st, fr, x, res)
	case *ssa.SliceToArrayPointer:
		s := e.eval(st, fr, x.X).(*SliceV)
		n := x.Type().Underlying().(*types.Pointer).Elem().Underlying().(*types.Array).Len()
		if !e.require(st, fr, c.BvBin(OpUle, c.BVConst(uint64(n), 64), s.Len), rtPanic("cannot convert slice to array pointer: length too short", in), res) {
			return false
		}
		if s.Base == nil {
			e.setReg(fr, x, nilPtr)
			break
		}
		if !s.Off.IsConst() || s.Off.val != 0 {
			panic(unsupported("slice-to-array-pointer with non-zero offset"))
		}
		e.setReg(fr, x, s.Base)
	default:
		panic(unsupported(fmt.Sprintf("instruction %T in %s", in, fr.fn)))
	}
	return true
}

func (e *Exec) unop(st *State, fr *Frame, x *ssa.UnOp, res *[]Outcome) bool {
	c := e.ctx
	v := e.eval(st, fr, x.X)
	switch x.Op {
	case token.MUL: // load
		alts, ok := e.ptrAlts(v)
		if !ok {
			panic(unsupported("load through a non-pointer value"))
		}
		nilG := c.False
		for _, a := range alts {
			if isNilPtr(a.P) {
				nilG = c.Or(nilG, a.G)
			}
		}
		if !e.require(st, fr, c.Not(nilG), rtPanic("invalid memory address or nil pointer dereference", x), res) {
			return false
		}
		var acc Value
		for i := len(alts) - 1; i >= 0; i-- {
			if isNilPtr(alts[i].P) {
				continue
			}
			lv := e.load(st, alts[i].P)
			if acc == nil {
				acc = lv
				continue
			}
			mv, ok := e.mergeValue(alts[i].G, lv, acc, 0)
			if !ok {
				panic(unsupported("load through a pointer choice whose targets cannot be merged"))
			}
			acc = mv
		}
		e.setReg(fr, x, acc)
	case token.NOT:
		e.setReg(fr, x, c.Not(v.(*Term)))
	case token.SUB:
		t := v.(*Term)
		if t.sort.K == KBV {
			e.setReg(fr, x, c.BvNeg(t))
		} else {
			e.setReg(fr, x, c.FNeg(t))
		}
	case token.XOR:
		e.setReg(fr, x, c.BvNot(v.(*Term)))
	case token.ARROW:
		panic(unsupported("channel receive"))
	default:
		panic(unsupported("unop " + x.Op.String()))
	}
	return true
}

func (e *Exec) binop(st *State, fr *Frame, x *ssa.BinOp, res *[]Outcome) bool {
	c := e.ctx
	a := e.eval(st, fr, x.X)
	b := e.eval(st, fr, x.Y)
	set := func(v Value) bool { e.setReg(fr, x, v); return true }
	xt := x.X.Type()
	switch av := a.(type) {
	case *Term:
		bv := b.(*Term)
		if av.sort.K == KBool {
			switch x.Op {
			case token.EQL:
				return set(c.Eq(av, bv))
			case token.NEQ:
				return set(c.Not(c.Eq(av, bv)))
			case token.AND, token.LAND:
				return set(c.And(av, bv))
			case token.OR, token.LOR:
				return set(c.Or(av, bv))
			}
			panic(unsupported("bool binop " + x.Op.String()))
		}
		if av.sort.K == KF32 || av.sort.K == KF64 {
			switch x.Op {
			case token.ADD:
				return set(c.FBin(OpFAdd, av, bv))
			case token.SUB:
				return set(c.FBin(OpFSub, av, bv))
			case token.MUL:
				return set(c.FBin(OpFMul, av, bv))
			case token.QUO:
				return set(c.FBin(OpFDiv, av, bv))
			case token.EQL:
				return set(c.FBin(OpFEq, av, bv))
			case token.NEQ:
				return set(c.Not(c.FBin(OpFEq, av, bv)))
			case token.LSS:
				return set(c.FBin(OpFLt, av, bv))
			case token.LEQ:
				return set(c.FBin(OpFLe, av, bv))
			case token.GTR:
				return set(c.FBin(OpFLt, bv, av))
			case token.GEQ:
				return set(c.FBin(OpFLe, bv, av))
			}
			panic(unsupported("float binop " + x.Op.String()))
		}
		signed := isSigned(xt)
		switch x.Op {
		case token.ADD:
			return set(c.BvBin(OpAdd, av, bv))
		case token.SUB:
			return set(c.BvBin(OpSub, av, bv))
		case token.MUL:
			return set(c.BvBin(OpMul, av, bv))
		case token.QUO, token.REM:
			if !e.require(st, fr, c.Not(c.Eq(bv, c.BVConst(0, bv.sort.W))), rtPanic("integer divide by zero", x), res) {
				return false
			}
			op := OpUDiv
			if x.Op == token.QUO && signed {
				op = OpSDiv
			} else if x.Op == token.REM && signed {
				op = OpSRem
			} else if x.Op == token.REM {
				op = OpURem
			}
			return set(c.BvBin(op, av, bv))
		case token.AND:
			return set(c.BvBin(OpBAnd, av, bv))
		case token.OR:
			return set(c.BvBin(OpBOr, av, bv))
		case token.XOR:
			return set(c.BvBin(OpBXor, av, bv))
		case token.AND_NOT:
			return set(c.BvBin(OpBAnd, av, c.BvNot(bv)))
		case token.SHL, token.SHR:
			yt := x.Y.Type()
			if isSigned(yt) {
				if !e.require(st, fr, c.Not(c.BvBin(OpSlt, bv, c.BVConst(0, bv.sort.W))), rtPanic("negative shift amount", x), res) {
					return false
				}
			}
			w := av.sort.W
			var amt *Term
			var over *Term = c.False
			if bv.sort.W > w {
				over = c.Not(c.BvBin(OpUlt, bv, c.BVConst(uint64(w), bv.sort.W)))
				amt = c.Extract(bv, w-1, 0)
			} else {
				amt = c.Zext(bv, w)
			}
			var r *Term
			switch {
			case x.Op == token.SHL:
				r = c.Ite(over, c.BVConst(0, w), c.BvBin(OpShl, av, amt))
			case signed:
				r = c.Ite(over, c.BvBin(OpAshr, av, c.BVConst(uint64(w-1), w)), c.BvBin(OpAshr, av, amt))
			default:
				r = c.Ite(over, c.BVConst(0, w), c.BvBin(OpLshr, av, amt))
			}
			return set(r)
		case token.EQL:
			return set(c.Eq(av, bv))
		case token.NEQ:
			return set(c.Not(c.Eq(av, bv)))
		case token.LSS:
			if signed {
				return set(c.BvBin(OpSlt, av, bv))
			}
			return set(c.BvBin(OpUlt, av, bv))
		case token.LEQ:
			if signed {
				return set(c.BvBin(OpSle, av, bv))
			}
			return set(c.BvBin(OpUle, av, bv))
		case token.GTR:
			if signed {
				return set(c.BvBin(OpSlt, bv, av))
			}
			return set(c.BvBin(OpUlt, bv, av))
		case token.GEQ:
			if signed {
				return set(c.BvBin(OpSle, bv, av))
			}
			return set(c.BvBin(OpUle, bv, av))
		}
		panic(unsupported("int binop " + x.Op.String()))
	case *StrV:
		bs := b.(*StrV)
		switch x.Op {
		case token.ADD:
			return set(e.strConcat(av, bs))
		case token.EQL:
			return set(e.strEq(av, bs))
		case token.NEQ:
			return set(c.Not(e.strEq(av, bs)))
		case token.LSS:
			return set(e.strLess(av, bs))
		case token.GTR:
			return set(e.strLess(bs, av))
		case token.LEQ:
			return set(c.Not(e.strLess(bs, av)))
		case token.GEQ:
			return set(c.Not(e.strLess(av, bs)))
		}
		panic(unsupported("string binop " + x.Op.String()))
	}
	// reference-like comparisons
	switch x.Op {
	case token.EQL, token.NEQ:
		var r *Term
		ai, aIsI := a.(*IfaceV)
		bi, bIsI := b.(*IfaceV)
		switch {
		case aIsI && !bIsI:
			r = e.ifaceEqConcrete(ai, b, x.Y.Type())
		case bIsI && !aIsI:
			r = e.ifaceEqConcrete(bi, a, x.X.Type())
		default:
			r = e.valueEq(a, b)
		}
		if x.Op == token.NEQ {
			r = c.Not(r)
		}
		return set(r)
	}
	panic(unsupported(fmt.Sprintf("binop %s on %T", x.Op, a)))
}

func (e *Exec) ifaceEqConcrete(i *IfaceV, v Value, t types.Type) *Term {
	if i.T == nil {
		return e.ctx.False
	}
	if !types.Identical(i.T, t) {
		return e.ctx.False
	}
	return e.valueEq(i.V, v)
}

func (e *Exec) strConcat(a, b *StrV) *StrV {
	ao, al, ok1 := strWindow(a)
	bo, bl, ok2 := strWindow(b)
	if !ok1 || !ok2 {
		panic(unsupported("concatenation of strings with symbolic length"))
	}
	nb := make([]*Term, 0, al+bl)
	nb = append(nb, a.B[ao:ao+al]...)
	nb = append(nb, b.B[bo:bo+bl]...)
	return &StrV{B: nb, Off: e.ctx.BVConst(0, 64), Len: e.ctx.BVConst(uint64(al+bl), 64)}
}

func (e *Exec) strLess(a, b *StrV) *Term {
	c := e.ctx
	if ca, ok := concreteStr(a); ok {
		if cb, ok := concreteStr(b); ok {
			return c.Bool(ca < cb)
		}
	}
	// lexicographic: exists first differing position i < min(len) with a[i]<b[i], or a is a proper prefix
	n := len(a.B)
	if len(b.B) < n {
		n = len(b.B)
	}
	if a.Len.IsConst() && int(a.Len.val) < n {
		n = int(a.Len.val)
	}
	if b.Len.IsConst() && int(b.Len.val) < n {
		n = int(b.Len.val)
	}
	// res_i: result considering positions >= i
	res := c.BvBin(OpUlt, a.Len, b.Len) // all compared equal: shorter is less
	for i := n - 1; i >= 0; i-- {
		it := c.BVConst(uint64(i), 64)
		inA := c.BvBin(OpUlt, it, a.Len)
		inB := c.BvBin(OpUlt, it, b.Len)
		ab, bb := e.strByte(a, it), e.strByte(b, it)
		both := c.And(inA, inB)
		// if either string ended at i: a<b iff a ended and b did not
		ended := c.And(c.Not(inA), inB)
		res = c.Ite(both, c.Ite(c.Eq(ab, bb), res, c.BvBin(OpUlt, ab, bb)), ended)
	}
	return res
}

func (e *Exec) makeSlice(st *State, fr *Frame, x *ssa.MakeSlice, res *[]Outcome) bool {
	c := e.ctx
	ln := e.toI64(st, e.eval(st, fr, x.Len), x.Len.Type())
	cp := e.toI64(st, e.eval(st, fr, x.Cap), x.Cap.Type())
	elem := x.Type().Underlying().(*types.Slice).Elem()
	zero64 := c.BVConst(0, 64)
	esz := e.sizes.Sizeof(elem)
	if esz == 0 {
		esz = 1
	}
	maxElems := uint64(1<<47) / uint64(esz)
	if !e.require(st, fr, c.And(c.BvBin(OpSle, zero64, ln), c.BvBin(OpSle, ln, c.BVConst(maxElems, 64))), rtPanic("makeslice: len out of range", x), res) {
		return false
	}
	if !e.require(st, fr, c.And(c.BvBin(OpSle, ln, cp), c.BvBin(OpSle, cp, c.BVConst(maxElems, 64))), rtPanic("makeslice: cap out of range", x), res) {
		return false
	}
	n := 0
	if cp.IsConst() {
		n = int(cp.val)
		if n > 1<<22 {
			panic(unsupported(fmt.Sprintf("make with concrete size %d too large to model", n)))
		}
	} else {
		// symbolic size: sizes above AllocLimit are an allocation-assertion failure (memory out of
		// proportion); sizes up to AllocBound are explored (that many cells are allocated); sizes in
		// between are outside the explored bound (stated in the evidence).
		limit := e.cfg.AllocLimit
		if limit < e.cfg.AllocBound {
			limit = e.cfg.AllocBound
		}
		if !e.require(st, fr, c.BvBin(OpSle, cp, c.BVConst(uint64(limit), 64)), &PanicInfo{Kind: "alloc", Msg: fmt.Sprintf("allocation of more than %d elements", limit), in: x}, res) {
			return false
		}
		n = e.cfg.AllocBound
		if limit > n {
			within := c.BvBin(OpSle, cp, c.BVConst(uint64(n), 64))
			if e.check(st, within) == "unsat" {
				return false
			}
			if e.check(st, c.Not(within)) != "unsat" {
				e.note(fmt.Sprintf("allocation sizes above %d elements are not explored", n))
			}
			st.assume(within)
		}
	}
	at := types.NewArray(elem, int64(n))
	o := e.newObject(at, "make "+elem.String())
	st.heap[o] = copyAgg(e.zero(at), st.epoch)
	e.setReg(fr, x, &SliceV{Base: &PtrV{Obj: o}, Off: zero64, Len: ln, Cap: cp})
	return true
}

func (e *Exec) sliceOp(st *State, fr *Frame, x *ssa.Slice, res *[]Outcome) bool {
	c := e.ctx
	base := e.eval(st, fr, x.X)
	var lo, hi, mx *Term
	if x.Low != nil {
		lo = e.toI64(st, e.eval(st, fr, x.Low), x.Low.Type())
	} else {
		lo = c.BVConst(0, 64)
	}
	if x.High != nil {
		hi = e.toI64(st, e.eval(st, fr, x.High), x.High.Type())
	}
	if x.Max != nil {
		mx = e.toI64(st, e.eval(st, fr, x.Max), x.Max.Type())
	}
	chk := func(cond *Term) bool {
		return e.require(st, fr, cond, rtPanic("slice bounds out of range", x), res)
	}
	switch b := base.(type) {
	case *StrV:
		if hi == nil {
			hi = b.Len
		}
		if !chk(c.And(c.BvBin(OpUle, lo, hi), c.BvBin(OpUle, hi, b.Len))) {
			return false
		}
		e.setReg(fr, x, &StrV{B: b.B, Off: c.BvBin(OpAdd, b.Off, lo), Len: c.BvBin(OpSub, hi, lo)})
	case *SliceV:
		if hi == nil {
			hi = b.Len
		}
		capv := b.Cap
		if mx != nil {
			if !chk(c.And(c.BvBin(OpUle, hi, mx), c.BvBin(OpUle, mx, b.Cap))) {
				return false
			}
			capv = mx
		}
		if !chk(c.And(c.BvBin(OpUle, lo, hi), c.BvBin(OpUle, hi, capv))) {
			return false
		}
		if b.Base == nil {
			e.setReg(fr, x, b)
			break
		}
		e.setReg(fr, x, &SliceV{Base: b.Base, Off: c.BvBin(OpAdd, b.Off, lo), Len: c.BvBin(OpSub, hi, lo), Cap: c.BvBin(OpSub, capv, lo)})
	case *PtrV:
		if isNilPtr(b) {
			return e.require(st, fr, c.False, rtPanic("invalid memory address or nil pointer dereference", x), res)
		}
		n := x.X.Type().Underlying().(*types.Pointer).Elem().Underlying().(*types.Array).Len()
		nn := c.BVConst(uint64(n), 64)
		if hi == nil {
			hi = nn
		}
		capv := nn
		if mx != nil {
			if !chk(c.And(c.BvBin(OpUle, hi, mx), c.BvBin(OpUle, mx, nn))) {
				return false
			}
			capv = mx
		}
		if !chk(c.And(c.BvBin(OpUle, lo, hi), c.BvBin(OpUle, hi, capv))) {
			return false
		}
		e.setReg(fr, x, &SliceV{Base: b, Off: lo, Len: c.BvBin(OpSub, hi, lo), Cap: c.BvBin(OpSub, capv, lo)})
	default:
		panic(unsupported(fmt.Sprintf("slice of %T", base)))
	}
	return true
}

func (e *Exec) typeAssert(st *State, fr *Frame, x *ssa.TypeAssert, res *[]Outcome) bool {
	iv := e.eval(st, fr, x.X).(*IfaceV)
	ok := false
	var val Value
	if iv.T != nil {
		if it, isIface := x.AssertedType.Underlying().(*types.Interface); isIface {
			ok = types.Implements(iv.T, it)
			val = iv
		} else {
			ok = types.Identical(iv.T, x.AssertedType)
			val = iv.V
		}
	}
	if x.CommaOk {
		if !ok {
			val = e.zero(x.AssertedType)
		}
		e.setReg(fr, x, &StructV{F: []Value{val, e.ctx.Bool(ok)}})
		return true
	}
	if !ok {
		return e.require(st, fr, e.ctx.False, rtPanic("interface conversion: type assertion failed", x), res)
	}
	e.setReg(fr, x, val)
	return true
}

// ---- conversions ----

func (e *Exec) convert(st *State, fr *Frame, x *ssa.Convert, res *[]Outcome) bool {
	c := e.ctx
	v := e.eval(st, fr, x.X)
	from, to := x.X.Type().Underlying(), x.Type().Underlying()
	set := func(v Value) bool { e.setReg(fr, x, v); return true }
	switch {
	case isInteger(from) && isInteger(to):
		t := v.(*Term)
		w := intWidth(to.(*types.Basic))
		if isSigned(from) {
			return set(c.Sext(t, w))
		}
		return set(c.Zext(t, w))
	case isInteger(from) && isFloat(to):
		return set(c.IntToF(v.(*Term), isSigned(from), sortOf(to)))
	case isFloat(from) && isInteger(to):
		return set(c.FToInt(v.(*Term), isSigned(to), intWidth(to.(*types.Basic))))
	case isFloat(from) && isFloat(to):
		return set(c.FConv(v.(*Term), sortOf(to)))
	case isString(from) && isString(to):
		return set(v)
	case isInteger(from) && isString(to):
		t := v.(*Term)
		if !t.IsConst() {
			return set(e.runeToStr(e.toI64(st, t, from)))
		}
		r := rune(sext64(t.val, t.sort.W))
		if sext64(t.val, t.sort.W) > 0x10FFFF || sext64(t.val, t.sort.W) < 0 {
			r = 0xFFFD
		}
		return set(e.strConst(string(r)))
	case isString(from):
		s := v.(*StrV)
		sl, ok := to.(*types.Slice)
		if !ok {
			break
		}
		if isByteType(sl.Elem()) {
			return set(e.strToBytes(st, s))
		}
		// []rune(s)
		cs, ok := concreteStr(s)
		if !ok {
			panic(unsupported("[]rune(symbolic string)"))
		}
		rs := []rune(cs)
		at := types.NewArray(sl.Elem(), int64(len(rs)))
		o := e.newObject(at, "runes")
		arr := &ArrayV{E: make([]Value, len(rs)), owner: st.epoch}
		for i, r := range rs {
			arr.E[i] = c.BVConst(uint64(r), 32)
		}
		st.heap[o] = arr
		n := c.BVConst(uint64(len(rs)), 64)
		return set(&SliceV{Base: &PtrV{Obj: o}, Off: c.BVConst(0, 64), Len: n, Cap: n})
	case isString(to):
		sl, ok := from.(*types.Slice)
		if !ok {
			break
		}
		s := v.(*SliceV)
		if isByteType(sl.Elem()) {
			return set(e.bytesToStr(st, s))
		}
		// string([]rune)
		if !s.Len.IsConst() || (s.Base != nil && !s.Off.IsConst()) {
			panic(unsupported("string([]rune) with symbolic length"))
		}
		var sb strings.Builder
		for i := 0; i < int(s.Len.val); i++ {
			el := e.load(st, &PtrV{Obj: s.Base.Obj, Path: append(append([]PathElem(nil), s.Base.Path...), PathElem{Field: -1, Idx: c.BVConst(s.Off.val+uint64(i), 64)})}).(*Term)
			if !el.IsConst() {
				panic(unsupported("string([]rune) with symbolic runes"))
			}
			sb.WriteRune(rune(int32(el.val)))
		}
		return set(e.strConst(sb.String()))
	case isUnsafePointer(from) || isUnsafePointer(to):
		return set(v)
	}
	if _, ok := from.(*types.Pointer); ok {
		if _, ok := to.(*types.Pointer); ok {
			return set(v)
		}
	}
	panic(unsupported(fmt.Sprintf("conversion %s -> %s", x.X.Type(), x.Type())))
}

func isUnsafePointer(t types.Type) bool {
	b, ok := t.(*types.Basic)
	return ok && b.Kind() == types.UnsafePointer
}

func isByteType(t types.Type) bool {
	b, ok := t.Underlying().(*types.Basic)
	return ok && (b.Kind() == types.Uint8)
}

func (e *Exec) strToBytes(st *State, s *StrV) *SliceV {
	c := e.ctx
	if !s.Off.IsConst() {
		panic(unsupported("[]byte(string) with symbolic offset"))
	}
	off := int(s.Off.val)
	n := len(s.B) - off
	if s.Len.IsConst() {
		n = int(s.Len.val)
	}
	at := types.NewArray(types.Typ[types.Uint8], int64(n))
	o := e.newObject(at, "bytes")
	arr := &ArrayV{E: make([]Value, n), owner: st.epoch}
	for i := 0; i < n; i++ {
		arr.E[i] = s.B[off+i]
	}
	st.heap[o] = arr
	return &SliceV{Base: &PtrV{Obj: o}, Off: c.BVConst(0, 64), Len: s.Len, Cap: s.Len}
}

func (e *Exec) sliceElemPtr(s *SliceV, i *Term) *PtrV {
	return &PtrV{Obj: s.Base.Obj, Path: append(append([]PathElem(nil), s.Base.Path...), PathElem{Field: -1, Idx: e.ctx.BvBin(OpAdd, s.Off, i)})}
}

// sliceWindow returns the concrete number of cells available from Off to the end of the backing array
// (requires a concrete offset).
func (e *Exec) sliceCells(st *State, s *SliceV) ([]Value, int, bool) {
	if s.Base == nil {
		return nil, 0, true
	}
	arr := e.walk(e.root(st, s.Base.Obj), s.Base.Path).(*ArrayV)
	if !s.Off.IsConst() {
		return arr.E, -1, false
	}
	off := int(s.Off.val)
	return arr.E[off:], off, true
}

func (e *Exec) bytesToStr(st *State, s *SliceV) *StrV {
	c := e.ctx
	if s.Base == nil {
		return e.emptyStr()
	}
	cells, _, ok := e.sliceCells(st, s)
	if !ok {
		// symbolic offset: keep the whole backing array and a symbolic offset
		b := make([]*Term, len(cells))
		for i, v := range cells {
			b[i] = v.(*Term)
		}
		return &StrV{B: b, Off: s.Off, Len: s.Len}
	}
	n := len(cells)
	if s.Len.IsConst() {
		n = int(s.Len.val)
	}
	b := make([]*Term, n)
	for i := 0; i < n; i++ {
		b[i] = cells[i].(*Term)
	}
	return &StrV{B: b, Off: c.BVConst(0, 64), Len: s.Len}
}

func (e *Exec) runeToStr(r *Term) *StrV {
	// UTF-8 encoding of a symbolic rune: 4-byte backing with symbolic length
	c := e.ctx
	k := func(v uint64) *Term { return c.BVConst(v, 64) }
	bad := c.Or(c.BvBin(OpUlt, k(0x10FFFF), r), c.And(c.BvBin(OpUle, k(0xD800), r), c.BvBin(OpUle, r, k(0xDFFF))))
	r = c.Ite(bad, k(0xFFFD), r)
	l1 := c.BvBin(OpUlt, r, k(0x80))
	l2 := c.BvBin(OpUlt, r, k(0x800))
	l3 := c.BvBin(OpUlt, r, k(0x10000))
	b8 := func(t *Term) *Term { return c.Extract(t, 7, 0) }
	sh := func(t *Term, n uint64) *Term { return c.BvBin(OpLshr, t, k(n)) }
	or := func(t *Term, m uint64) *Term { return c.BvBin(OpBOr, t, k(m)) }
	and := func(t *Term, m uint64) *Term { return c.BvBin(OpBAnd, t, k(m)) }
	cont := func(t *Term) *Term { return b8(or(and(t, 0x3F), 0x80)) }
	b0 := c.Ite(l1, b8(r), c.Ite(l2, b8(or(sh(r, 6), 0xC0)), c.Ite(l3, b8(or(sh(r, 12), 0xE0)), b8(or(sh(r, 18), 0xF0)))))
	b1 := c.Ite(l2, cont(r), c.Ite(l3, cont(sh(r, 6)), cont(sh(r, 12))))
	b2 := c.Ite(l3, cont(r), cont(sh(r, 6)))
	b3 := cont(r)
	ln := c.Ite(l1, k(1), c.Ite(l2, k(2), c.Ite(l3, k(3), k(4))))
	return &StrV{B: []*Term{b0, b1, b2, b3}, Off: k(0), Len: ln}
}

var _ = math.MaxInt8

func isStdPkg(path string) bool {
	first := path
	if i := strings.Index(path, "/"); i >= 0 {
		first = path[:i]
	}
	return !strings.Contains(first, ".") && first != "vt"
}

func sameObs(a, b []Draw) bool {
	if len(a) != len(b) {
		return false
	}
	for i := range a {
		if a[i].Name != b[i].Name || a[i].T.sort != b[i].T.sort {
			return false
		}
	}
	return true
}

// loopControlling: blk (ending in If) lies on a cycle and exactly one successor can return to blk.
func loopControlling(fn *ssa.Function, fi *FnInfo, blk *ssa.BasicBlock) bool {
	if r := fi.ctrl[blk.Index]; r != 0 {
		return r == 1
	}
	if fi.reach == nil {
		n := len(fn.Blocks)
		words := (n + 63) / 64
		fi.reach = make([][]uint64, n)
		for i := range fi.reach {
			fi.reach[i] = make([]uint64, words)
		}
		changed := true
		for changed {
			changed = false
			for i := n - 1; i >= 0; i-- {
				for _, s := range fn.Blocks[i].Succs {
					w := fi.reach[i]
					old := w[s.Index/64]
					w[s.Index/64] |= 1 << uint(s.Index%64)
					if w[s.Index/64] != old {
						changed = true
					}
					for k := range w {
						o := w[k]
						w[k] |= fi.reach[s.Index][k]
						if w[k] != o {
							changed = true
						}
					}
				}
			}
		}
	}
	back := 0
	for _, s := range blk.Succs {
		if s == blk || fi.reach[s.Index][blk.Index/64]&(1<<uint(blk.Index%64)) != 0 {
			back++
		}
	}
	res := back == 1
	if res {
		fi.ctrl[blk.Index] = 1
	} else {
		fi.ctrl[blk.Index] = 2
	}
	return res
}

// resolve applies the state's variable bindings (var == const facts on the path) to simple terms.
func (e *Exec) resolve(st *State, t *Term) *Term {
	if len(st.bind) == 0 || t.IsConst() {
		return t
	}
	switch t.op {
	case OpVar:
		if c, ok := st.bind[t]; ok {
			return c
		}
	case OpZext:
		if a := e.resolve(st, t.args[0]); a != t.args[0] {
			return e.ctx.Zext(a, t.sort.W)
		}
	case OpSext:
		if a := e.resolve(st, t.args[0]); a != t.args[0] {
			return e.ctx.Sext(a, t.sort.W)
		}
	case OpExtract:
		if a := e.resolve(st, t.args[0]); a != t.args[0] {
			return e.ctx.Extract(a, t.a, t.b)
		}
	}
	return t
}

func commonBind(a, b map[*Term]*Term) map[*Term]*Term {
	if len(a) == 0 || len(b) == 0 {
		return nil
	}
	r := map[*Term]*Term{}
	for k, v := range a {
		if b[k] == v {
			r[k] = v
		}
	}
	return r
}

func (e *Exec) note(msg string) {
	for _, n := range e.notes {
		if n == msg {
			return
		}
	}
	e.notes = append(e.notes, msg)
}

// loadFork handles *p where p carries a symbolic index into an array whose elements cannot be merged
// by ite (they hold slices, pointers, ...): the index is made concrete by forking over its feasible values.
func (e *Exec) loadFork(st *State, fr *Frame, x *ssa.UnOp) (alts []contAlt, handled bool) {
	p, ok := e.eval(st, fr, x.X).(*PtrV)
	if !ok || isNilPtr(p) {
		return nil, false
	}
	sym := -1
	for i, pe := range p.Path {
		if pe.Field < 0 && !pe.Idx.IsConst() {
			sym = i
			break
		}
	}
	if sym < 0 {
		return nil, false
	}
	// try the ite-merge first
	var val Value
	failed := false
	func() {
		defer func() {
			if r := recover(); r != nil {
				if u, ok := r.(unsupportedErr); ok && strings.Contains(u.msg, "non-mergeable") {
					failed = true
					return
				}
				panic(r)
			}
		}()
		val = e.load(st, p)
	}()
	if !failed {
		e.setReg(fr, x, val)
		return nil, false // handled inline: signal "not handled" but register is set; step1 will redo the same load harmlessly
	}
	for _, o := range e.concretize(st, p.Path[sym].Idx, 256) {
		np := &PtrV{Obj: p.Obj, Path: append([]PathElem(nil), p.Path...)}
		np.Path[sym].Idx = o.val.(*Term)
		f := fr.clone()
		// further symbolic indices on the same pointer are handled by the recursive attempt below
		var v Value
		func() {
			defer func() {
				if r := recover(); r != nil {
					if _, ok := r.(unsupportedErr); ok {
						panic(unsupported("load through a pointer with several non-mergeable symbolic indices"))
					}
					panic(r)
				}
			}()
			v = e.load(o.st, np)
		}()
		e.setReg(f, x, v)
		alts = append(alts, contAlt{o.st, f})
	}
	return alts, true
}

// summarise implements finite-domain summarisation: a designated pure function whose (single symbolic)
// argument is an ite-tree over constants is executed concretely once per distinct constant, and the
// results are recombined along the tree (pointers become guarded choices).
func (e *Exec) summarise(st *State, fn *ssa.Function, args []Value, bind []Value, callSite ssa.Instruction) ([]Outcome, bool) {
	pos := -1
	for i, a := range args {
		if t, ok := a.(*Term); ok && !t.IsConst() {
			if pos >= 0 || constLeaves(t, 4096) < 0 {
				return nil, false
			}
			pos = i
		}
	}
	if pos < 0 {
		return nil, false
	}
	tree := args[pos].(*Term)
	cache := map[*Term]Value{}
	var failed bool
	var eval func(t *Term) Value
	eval = func(t *Term) Value {
		if failed {
			return nil
		}
		if t.IsConst() {
			if v, ok := cache[t]; ok {
				return v
			}
			na := append([]Value(nil), args...)
			na[pos] = t
			e.summarising++
			outs := e.callFn(st, fn, na, bind, callSite)
			e.summarising--
			if len(outs) != 1 || outs[0].kind != OReturn || outs[0].st != st {
				failed = true
				return nil
			}
			cache[t] = outs[0].val
			return outs[0].val
		}
		a, b := eval(t.args[1]), eval(t.args[2])
		if failed {
			return nil
		}
		m, ok := e.mergeValue(t.args[0], a, b, 0)
		if !ok {
			failed = true
			return nil
		}
		return m
	}
	v := eval(tree)
	if failed {
		return nil, false
	}
	return []Outcome{{kind: OReturn, st: st, val: v}}, true
}

//go:build verif

package vt

// Runtime shim for gosym harnesses. In the symbolic engine the primitives
// (vfBits, vfInt, vfBool, vfChoice, vfAssume, vfAssert, vfReach, vfCover,
// vfKnown, vfUF) are intercepted; natively they replay a model file
// (env VF_REPLAY) so that a solver counter-example runs against the real build.

import (
	vfjson "encoding/json"
	vfos "os"
)

type vfDraw struct {
	N string   `json:"n"`
	V uint64   `json:"v"`
	A []uint64 `json:"a,omitempty"`
}

type vfAssertFailed struct{ Label string }
type vfAssumeFailed struct{}
type vfReplayExhausted struct{ Name string }

var (
	vfDraws  []vfDraw
	vfPos    int
	vfLoaded bool
	VfTrace  []string
)

func vfLoad() {
	if vfLoaded {
		return
	}
	vfLoaded = true
	p := vfos.Getenv("VF_REPLAY")
	if p == "" {
		return
	}
	b, err := vfos.ReadFile(p)
	if err != nil {
		panic(err)
	}
	var f struct {
		Model []vfDraw `json:"model"`
	}
	if err := vfjson.Unmarshal(b, &f); err != nil {
		panic(err)
	}
	vfDraws = f.Model
}

func vfReset() { vfPos = 0; vfLoaded = false; VfTrace = nil }

func vfNext(name string) uint64 {
	vfLoad()
	for vfPos < len(vfDraws) {
		d := vfDraws[vfPos]
		vfPos++
		if len(d.N) >= 3 && d.N[:3] == "uf:" {
			continue
		}
		if d.N != name {
			panic(vfReplayExhausted{"replay mismatch: want " + name + " got " + d.N})
		}
		return d.V
	}
	panic(vfReplayExhausted{name})
}

func vfBits(name string, w int) uint64 { return vfNext(name) }
func vfInt(name string, lo, hi int) int {
	v := int(vfNext(name))
	if v < lo || v > hi {
		panic(vfAssumeFailed{})
	}
	return v
}
func vfBool(name string) bool          { return vfNext(name) != 0 }
func vfChoice(name string, n int) int  { return int(vfNext(name)) }
func vfConcrete(x int) int             { return x }
func vfAssume(c bool) {
	if !c {
		panic(vfAssumeFailed{})
	}
}
func vfAssert(c bool, label string) {
	if !c {
		panic(vfAssertFailed{label})
	}
}
func vfReach(label string)         { VfTrace = append(VfTrace, label) }
func vfCover(label string, c bool) {}
func vfKnown(id string, c bool)    {}

// vfUF: uninterpreted function; natively looked up in the model's application table.
func vfUF(name string, args ...uint64) uint64 {
	vfLoad()
	for _, d := range vfDraws {
		if d.N == "uf:"+name && len(d.A) == len(args) {
			same := true
			for i := range args {
				if d.A[i] != args[i] {
					same = false
				}
			}
			if same {
				return d.V
			}
		}
	}
	return 0
}

// typed helpers (ordinary Go, executed symbolically as written)
func vfU8(name string) uint8   { return uint8(vfBits(name, 8)) }
func vfU16(name string) uint16 { return uint16(vfBits(name, 16)) }
func vfU32(name string) uint32 { return uint32(vfBits(name, 32)) }
func vfU64(name string) uint64 { return vfBits(name, 64) }
func vfI16(name string) int16  { return int16(vfBits(name, 16)) }
func vfI32(name string) int32  { return int32(vfBits(name, 32)) }
func vfI64(name string) int64  { return int64(vfBits(name, 64)) }
func vfRune(name string) rune  { return rune(vfBits(name, 32)) }

// vfBytes returns a slice of symbolic length n (0 <= n <= max) over max symbolic bytes, capacity n.
func vfBytes(name string, n, max int) []byte {
	b := make([]byte, max)
	for i := range b {
		b[i] = vfU8(name)
	}
	return b[:n:n]
}

// vfBytesCap is vfBytes with capacity c (n <= c <= max): bytes n..c-1 are spare capacity with symbolic content.
func vfBytesCap(name string, n, c, max int) []byte {
	b := make([]byte, max)
	for i := range b {
		b[i] = vfU8(name)
	}
	return b[:n:c]
}

//go:build verif

package vt

import (
	"encoding/binary"
	"errors"
	"sort"
)

// expected: HELD
func VfH_abs_ok() {
	x := vfI32("x")
	vfAssume(x != -2147483648)
	y := x
	if y < 0 {
		y = -y
	}
	vfAssert(y >= 0, "abs nonneg")
	vfReach("end")
}

// expected: VIOLATION (x = MinInt32)
func VfH_abs_bad() {
	x := vfI32("x")
	y := x
	if y < 0 {
		y = -y
	}
	vfAssert(y >= 0, "abs nonneg")
}

func parse(b []byte) (uint16, error) {
	if len(b) < 2 {
		return 0, errors.New("short")
	}
	n := binary.BigEndian.Uint16(b)
	if int(n) > len(b)-2 {
		return 0, errors.New("bad len")
	}
	body := b[2 : 2+n]
	var s uint16
	for _, c := range body {
		s += uint16(c)
	}
	return s, nil
}

// expected: HELD
func VfH_parse_ok() {
	n := vfInt("n", 0, 6)
	b := vfBytes("b", n, 6)
	s, err := parse(b)
	if err == nil {
		vfAssert(s <= 4*255, "sum bound")
	}
	vfReach("end")
}

func parseBad(b []byte) uint16 {
	if len(b) < 2 {
		return 0
	}
	n := binary.BigEndian.Uint16(b)
	body := b[2 : 2+n] // missing check
	return uint16(len(body))
}

// expected: VIOLATION (slice bounds)
func VfH_parse_bad() {
	n := vfInt("n", 0, 6)
	b := vfBytes("b", n, 6)
	parseBad(b)
}

type shape interface{ area() int }
type sq struct{ s int }
type rc struct{ w, h int }

func (s sq) area() int  { return s.s * s.s }
func (r *rc) area() int { return r.w * r.h }

// expected: HELD
func VfH_iface() {
	a := vfInt("a", 0, 100)
	var sh shape
	if vfBool("which") {
		sh = sq{a}
	} else {
		sh = &rc{a, a}
	}
	vfAssert(sh.area() == a*a, "area")
	m := map[string]int{"x": 1, "y": 2}
	m["z"] = a
	vfAssert(m["z"] == a && m["x"] == 1 && len(m) == 3, "map")
	delete(m, "x")
	_, ok := m["x"]
	vfAssert(!ok, "deleted")
}

func safeDiv(a, b int) (r int, err error) {
	defer func() {
		if e := recover(); e != nil {
			err = errors.New("div")
		}
	}()
	return a / b, nil
}

// expected: HELD
func VfH_defer() {
	a := vfInt("a", -5, 5)
	b := vfInt("b", -5, 5)
	r, err := safeDiv(a, b)
	if b == 0 {
		vfAssert(err != nil, "err on zero")
	} else {
		vfAssert(err == nil && r == a/b, "div")
	}
}

// expected: HELD
func VfH_sort() {
	xs := []int{vfInt("a", 0, 9), vfInt("b", 0, 9), vfInt("c", 0, 9)}
	sort.Slice(xs, func(i, j int) bool { return xs[i] < xs[j] })
	vfAssert(xs[0] <= xs[1] && xs[1] <= xs[2], "sorted")
	i := sort.Search(3, func(i int) bool { return xs[i] >= 5 })
	vfAssert(i == 3 || xs[i] >= 5, "search")
}

// expected: HELD
func VfH_append() {
	n := vfInt("n", 0, 3)
	b := vfBytesCap("b", n, 4, 4)
	orig := make([]byte, 4)
	copy(orig, b[:4])
	c := append(b, 7)
	vfAssert(len(c) == n+1 && c[n] == 7, "appended")
	for i := 0; i < n; i++ {
		vfAssert(c[i] == orig[i], "prefix kept")
	}
	// in place: spare capacity clobbered
	vfAssert(b[:4][n] == 7, "aliasing visible")
	var s string = "héllo"
	cnt := 0
	for _, r := range s {
		if r == 'é' {
			cnt++
		}
	}
	vfAssert(cnt == 1 && len(s) == 6, "range string")
}

// expected: HELD (float)
func VfH_float() {
	x := float32(vfInt("x", 0, 1000))
	y := x / 4
	vfAssert(y*4 == x, "exact")
	vfAssert(!(y != y), "not nan")
}

module vt

go 1.19

package main

import (
	"encoding/json"
	"os"
	"path/filepath"
	"sort"
	"time"
)

type Evidence struct {
	Property      string
	Tier          string
	Seed          int
	Paths         int
	Sat, Unsat    int
	Unknown       int
	SolverS       float64
	LoadS         float64
	Steps         int
	Forks, Merges int
	Violations    int
	ReplaysAgreed int
	OKValidated   int
	Inconclusive  []string
	Reduced       []string
	Known         []string
	Replays       []map[string]string
	funcs         map[string]int
	harness       map[string]*hEvidence
	order         []string
}

type hEvidence struct {
	ID         string         `json:"harness"`
	Func       string         `json:"entry"`
	Pkg        string         `json:"package"`
	Bounds     string         `json:"bounds"`
	Oracle     string         `json:"oracle,omitempty"`
	Stubs      []string       `json:"stubs_and_assumptions,omitempty"`
	Jobs       int            `json:"cases"`
	Paths      int            `json:"paths"`
	PathsOK    int            `json:"paths_completed"`
	PathsDead  int            `json:"paths_pruned_by_assumption"`
	Violations int            `json:"violating_paths"`
	Known      int            `json:"known_finding_paths"`
	Queries    int            `json:"solver_queries"`
	Unsat      int            `json:"queries_unsat"`
	Sat        int            `json:"queries_sat"`
	Unknown    int            `json:"queries_unknown"`
	SolverS    float64        `json:"solver_wall_s"`
	WallS      float64        `json:"wall_s_sum"`
	Covers     map[string]int `json:"vacuity_witnesses"`
	Verdicts   map[string]int `json:"case_verdicts"`
	Sample     interface{}    `json:"sample_case,omitempty"`
	nontrivial int
}

func newEvidence(prop, tier string, seed int) *Evidence {
	return &Evidence{Property: prop, Tier: tier, Seed: seed, funcs: map[string]int{}, harness: map[string]*hEvidence{}}
}

func (ev *Evidence) addJob(j *job) {
	h := ev.harness[j.spec.ID]
	if h == nil {
		ts := j.spec.Tiers[ev.Tier]
		h = &hEvidence{ID: j.spec.ID, Func: j.spec.Func, Pkg: j.spec.Pkg, Bounds: ts.Bounds, Oracle: j.spec.Oracle, Stubs: j.spec.Stubs, Covers: map[string]int{}, Verdicts: map[string]int{}}
		ev.harness[j.spec.ID] = h
		ev.order = append(ev.order, j.spec.ID)
	}
	r := j.res
	h.Jobs++
	h.Paths += r.Stats.Paths
	h.PathsOK += r.Stats.PathsOK
	h.PathsDead += r.Stats.PathsDead
	h.Violations += r.Stats.PathsViol
	h.Known += r.Stats.PathsKnown
	h.Queries += r.SolverSat + r.SolverUns + r.SolverUnk
	h.Sat += r.SolverSat
	h.Unsat += r.SolverUns
	h.Unknown += r.SolverUnk
	h.SolverS += r.SolverS
	h.WallS += r.WallS
	h.Verdicts[r.Verdict]++
	for k, v := range r.Covers {
		h.Covers[k] += v
	}
	if h.Sample == nil && len(r.OKSamples) > 0 {
		h.Sample = map[string]interface{}{"case_prefix": j.prefix, "completed_path_model": r.OKSamples[len(r.OKSamples)-1].Model}
	}
	for _, p := range r.Paths {
		if p.Kind == "violation" || p.Kind == "known" {
			h.Sample = map[string]interface{}{"case_prefix": j.prefix, "kind": p.Kind, "failed": p.Label, "site": p.Site, "model": p.Model}
			break
		}
	}
	if r.Stats.Paths > 0 && len(r.Covers) > 0 {
		h.nontrivial += r.Stats.PathsOK
	}
	ev.Paths += r.Stats.Paths
	ev.Sat += r.SolverSat
	ev.Unsat += r.SolverUns
	ev.Unknown += r.SolverUnk
	ev.SolverS += r.SolverS
	ev.Steps += r.Stats.Steps
	ev.Forks += r.Stats.Forks
	ev.Merges += r.Stats.Merges
	for f, n := range r.Entered {
		ev.funcs[f] += n
	}
}

func (ev *Evidence) write(wall time.Duration) {
	var samples []interface{}
	nontrivial := 0
	for _, id := range ev.order {
		samples = append(samples, ev.harness[id])
		nontrivial += ev.harness[id].nontrivial
	}
	if len(samples) == 0 {
		samples = append(samples, map[string]string{"note": "no harness ran"})
	}
	var funcs []string
	for f := range ev.funcs {
		funcs = append(funcs, f)
	}
	sort.Strings(funcs)
	repoFuncs := 0
	var repoList []string
	for _, f := range funcs {
		if len(f) > 0 && containsRepo(f) {
			repoFuncs++
			repoList = append(repoList, f)
		}
	}
	states := ev.Paths
	if states < 1 {
		states = 1
	}
	trans := ev.Sat + ev.Unsat + ev.Unknown
	if trans < 1 {
		trans = 1
	}
	cov := map[string]interface{}{
		"states":                               states,
		"transitions":                          trans,
		"traces_validated_against_impl":        ev.ReplaysAgreed,
		"samples":                              samples,
		"evaluations":                          states,
		"distinct_nontrivial":                  nontrivial,
		"rule":                                 "one evaluation = one symbolic path of a harness explored to completion (each path stands for all inputs satisfying its path condition); a path is non-trivial when it completed normally in a case that reached at least one declared vacuity witness (vfReach/vfCover label)",
		"explanation":                          "bounded symbolic execution of the real Go SSA (go/ssa of /repo's working tree) with an SMT solver deciding every branch, implicit panic and assertion; states = symbolic paths, transitions = solver queries",
		"solver_queries":                       map[string]int{"sat": ev.Sat, "unsat": ev.Unsat, "unknown": ev.Unknown},
		"solver_wall_s":                        ev.SolverS,
		"ssa_load_s":                           ev.LoadS,
		"ssa_instructions_executed":            ev.Steps,
		"forks":                                ev.Forks,
		"merges":                               ev.Merges,
		"functions_encoded_total":              len(funcs),
		"repo_functions_encoded":               repoList,
		"completed_paths_replayed_natively_ok": ev.OKValidated,
		"counterexample_replays":               ev.Replays,
		"known_findings":                       ev.Known,
		"inconclusive":                         ev.Inconclusive,
		"not_explored_within_time_budget":      ev.Reduced,
		"exhaustive":                           false,
	}
	var assumptions []string
	seen := map[string]bool{}
	for _, id := range ev.order {
		h := ev.harness[id]
		if h.Bounds != "" {
			assumptions = append(assumptions, id+" bound: "+h.Bounds)
		}
		for _, s := range h.Stubs {
			if !seen[s] {
				seen[s] = true
				assumptions = append(assumptions, s)
			}
		}
	}
	assumptions = append(assumptions, "64-bit int; go/ssa lowering; gosym interpreter semantics; SMT solver z3 5.1.0 (z3-new); everything outside the stated bounds is not covered")
	out := map[string]interface{}{
		"property_id": ev.Property,
		"tier":        ev.Tier,
		"seed":        ev.Seed,
		"level":       "model_checking",
		"coverage":    cov,
		"assumptions": assumptions,
		"wall_s":      wall.Seconds(),
		"violations":  ev.Violations,
	}
	b, _ := json.MarshalIndent(out, "", " ")
	os.MkdirAll(filepath.Join(outRoot, "evidence"), 0o755)
	os.WriteFile(filepath.Join(outRoot, "evidence", ev.Property+".json"), b, 0o644)
}

func containsRepo(f string) bool {
	for i := 0; i+len(repoMod) <= len(f); i++ {
		if f[i:i+len(repoMod)] == repoMod {
			return true
		}
	}
	return false
}

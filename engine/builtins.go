package main

import (
	"fmt"
	"go/types"
	"strings"

	"golang.org/x/tools/go/ssa"
)

// branch splits st on c. Either result may be nil (infeasible). st itself is reused for the true side.
func (e *Exec) branch(st *State, c *Term) (t, f *State) {
	if c.IsTrue() {
		return st, nil
	}
	if c.IsFalse() {
		return nil, st
	}
	if e.check(st, c) == "unsat" {
		return nil, st
	}
	if e.check(st, e.ctx.Not(c)) == "unsat" {
		return st, nil
	}
	f = e.fork(st)
	f.assume(e.ctx.Not(c))
	st.assume(c)
	return st, f
}

func ret(st *State, v Value) []Outcome { return []Outcome{{kind: OReturn, st: st, val: v}} }

func (e *Exec) argStr(v Value) string {
	s, ok := concreteStr(v.(*StrV))
	if !ok {
		panic(unsupported("vf* name/label argument must be a constant string"))
	}
	return s
}

func (e *Exec) argInt(v Value) int64 {
	t := v.(*Term)
	if !t.IsConst() {
		panic(unsupported("vf* bound argument must be concrete"))
	}
	return sext64(t.val, t.sort.W)
}

// intrinsic intercepts harness primitives and modelled library functions.
func (e *Exec) intrinsic(st *State, fn *ssa.Function, args []Value, callSite ssa.Instruction) ([]Outcome, bool) {
	c := e.ctx
	name := fn.Name()
	if fn.Pkg != nil && strings.HasPrefix(name, "vf") && fn.Signature.Recv() == nil {
		switch name {
		case "vfBits":
			w := int(e.argInt(args[1]))
			v := c.Var(e.argStr(args[0]), BV(w))
			st.draws = append(st.draws, Draw{Name: e.argStr(args[0]), T: v, Kind: "bits"})
			return ret(st, c.Zext(v, 64)), true
		case "vfInt":
			lo, hi := args[1].(*Term), args[2].(*Term)
			v := c.Var(e.argStr(args[0]), BV(64))
			st.draws = append(st.draws, Draw{Name: e.argStr(args[0]), T: v, Kind: "int"})
			st.assume(c.And(c.BvBin(OpSle, lo, v), c.BvBin(OpSle, v, hi)))
			if e.check(st, nil) == "unsat" {
				return nil, true
			}
			return ret(st, v), true
		case "vfBool":
			v := c.Var(e.argStr(args[0]), SBool)
			st.draws = append(st.draws, Draw{Name: e.argStr(args[0]), T: v, Kind: "bool"})
			return ret(st, v), true
		case "vfChoice":
			n := int(e.argInt(args[1]))
			nm := e.argStr(args[0])
			if st.npre < len(st.prefix) {
				if st.npre < len(e.cfg.SplitDims) && e.cfg.SplitDims[st.npre] < n {
					// the case split registered for this harness is narrower than the choice it feeds:
					// values would silently be skipped
					e.event("split", fmt.Sprintf("split dimension %d has size %d but vfChoice(%q) has %d values", st.npre, e.cfg.SplitDims[st.npre], nm, n))
				}
				k := st.prefix[st.npre]
				st.npre++
				if k >= n {
					return nil, true
				}
				t := c.BVConst(uint64(k), 64)
				st.draws = append(st.draws, Draw{Name: nm, T: t, Kind: "choice"})
				return ret(st, t), true
			}
			var outs []Outcome
			for k := 0; k < n; k++ {
				s := st
				if k < n-1 {
					s = e.fork(st)
				}
				t := c.BVConst(uint64(k), 64)
				s.draws = append(s.draws, Draw{Name: nm, T: t, Kind: "choice"})
				outs = append(outs, Outcome{kind: OReturn, st: s, val: t})
			}
			return outs, true
		case "vfAssume":
			cond := args[0].(*Term)
			if cond.IsTrue() {
				return ret(st, nil), true
			}
			if cond.IsFalse() || e.check(st, cond) == "unsat" {
				e.stats.PathsDead++
				return nil, true
			}
			st.assume(cond)
			return ret(st, nil), true
		case "vfAssert":
			cond := args[0].(*Term)
			label := e.argStr(args[1])
			if cond.IsTrue() {
				return ret(st, nil), true
			}
			pi := &PanicInfo{Kind: "assert", Msg: label, in: callSite}
			if cond.IsFalse() {
				return []Outcome{{kind: OPanic, st: st, pinfo: pi}}, true
			}
			if e.check(st, c.Not(cond)) == "unsat" {
				return ret(st, nil), true
			}
			ps := e.fork(st)
			ps.assume(c.Not(cond))
			outs := []Outcome{{kind: OPanic, st: ps, pinfo: pi}}
			if e.check(st, cond) != "unsat" {
				st.assume(cond)
				outs = append(outs, Outcome{kind: OReturn, st: st})
			}
			return outs, true
		case "vfReach":
			l := e.argStr(args[0])
			st.covers = unionStrings(st.covers, []string{l})
			e.covers[l]++
			return ret(st, nil), true
		case "vfCover":
			l := e.argStr(args[0])
			cond := args[1].(*Term)
			if e.covers[l] == 0 && !cond.IsFalse() {
				if cond.IsTrue() || e.sol.Check(st.pc, cond, e.cfg.FeasMs*5) == "sat" {
					e.covers[l]++
				}
			}
			return ret(st, nil), true
		case "vfKnown":
			id := e.argStr(args[0])
			cond := args[1].(*Term)
			if !e.cfg.Known[id] {
				return ret(st, nil), true
			}
			t, f := e.branch(st, cond)
			var outs []Outcome
			if t != nil {
				t.covers = unionStrings(t.covers, []string{"known:" + id})
				outs = append(outs, Outcome{kind: OReturn, st: t})
			}
			if f != nil {
				outs = append(outs, Outcome{kind: OReturn, st: f})
			}
			return outs, true
		case "vfUF":
			nm := e.argStr(args[0])
			var ts []*Term
			sl := args[1].(*SliceV)
			if sl.Base != nil {
				n := int(e.argInt(sl.Len))
				for i := 0; i < n; i++ {
					ts = append(ts, e.load(st, e.sliceElemPtr(sl, c.BVConst(uint64(i), 64))).(*Term))
				}
			}
			r := c.UF(fmt.Sprintf("%s_%d", nm, len(ts)), BV(64), ts...)
			st.draws = append(st.draws, Draw{Name: nm, T: r, Kind: "uf", Args: ts})
			return ret(st, r), true
		case "vfAnd":
			return ret(st, c.And(args[0].(*Term), args[1].(*Term))), true
		case "vfOr":
			return ret(st, c.Or(args[0].(*Term), args[1].(*Term))), true
		case "vfNot":
			return ret(st, c.Not(args[0].(*Term))), true
		case "vfImplies":
			return ret(st, c.Implies(args[0].(*Term), args[1].(*Term))), true
		case "vfIteInt", "vfIteU32", "vfIteBool", "vfIteF32":
			return ret(st, c.Ite(args[0].(*Term), args[1].(*Term), args[2].(*Term))), true
		case "vfFreezeAll":
			// C17 monitor: every object that exists now (the shared font, every package-level
			// variable and table) becomes read-only; a later store into one of them is a violation
			n := 0
			for _, o := range e.allObjs {
				if !o.frozen {
					o.frozen = true
					n++
				}
			}
			e.note(fmt.Sprintf("frozen-region monitor armed on %d objects", n))
			return ret(st, nil), true
		case "vfThorough":
			return ret(st, c.Bool(e.cfg.Thorough)), true
		case "vfObserve":
			t := args[1].(*Term)
			st.observes = append(st.observes, Draw{Name: e.argStr(args[0]), T: t})
			return ret(st, nil), true
		case "vfConcrete":
			// vfConcrete(x int) int: fork over all feasible values of x (must be few)
			return e.concretize(st, args[0].(*Term), 64), true
		case "vfConcreteN":
			return e.concretize(st, args[0].(*Term), 1<<16), true
		}
		// other vf* helpers are ordinary Go code in the shim
		return nil, false
	}
	if fn.Pkg == nil {
		return nil, false
	}
	full := fn.String()
	if strings.HasPrefix(full, "sync/atomic.") && fn.Signature.Recv() == nil {
		op := strings.TrimPrefix(full, "sync/atomic.")
		var p *PtrV
		if len(args) > 0 {
			p, _ = args[0].(*PtrV)
		}
		if p != nil && !isNilPtr(p) {
			switch {
			case strings.HasPrefix(op, "Load"):
				return ret(st, e.load(st, p)), true
			case strings.HasPrefix(op, "Store"):
				e.store(st, p, args[1])
				return ret(st, nil), true
			case strings.HasPrefix(op, "Add"):
				nv := c.BvBin(OpAdd, e.load(st, p).(*Term), args[1].(*Term))
				e.store(st, p, nv)
				return ret(st, nv), true
			case strings.HasPrefix(op, "Swap"):
				old := e.load(st, p)
				e.store(st, p, args[1])
				return ret(st, old), true
			case strings.HasPrefix(op, "CompareAndSwap"):
				cur := e.load(st, p)
				eq := e.valueEq(cur, args[1])
				if eq.IsTrue() {
					e.store(st, p, args[2])
				} else if !eq.IsFalse() {
					nv, ok := e.mergeValue(eq, args[2], cur, 0)
					if !ok {
						panic(unsupported("atomic CAS on non-mergeable value"))
					}
					e.store(st, p, nv)
				}
				return ret(st, eq), true
			}
		}
	}
	switch full {
	case "fmt.Errorf", "fmt.Sprintf", "fmt.Sprint", "fmt.Sprintln":
		if full == "fmt.Errorf" {
			return ret(st, e.opaqueError(st, "fmt.Errorf")), true
		}
		return ret(st, e.strConst("<fmt>")), true
	case "fmt.Println", "fmt.Printf", "fmt.Print", "fmt.Fprintf", "fmt.Fprintln", "fmt.Fprint":
		return ret(st, e.zeroResults(fn)), true
	case "log.Println", "log.Printf", "log.Print", "(*log.Logger).Printf", "(*log.Logger).Println", "(*log.Logger).Print":
		return ret(st, nil), true
	case "internal/abi.NoEscape", "strings.noescape", "internal/abi.Escape":
		return ret(st, args[0]), true
	case "internal/bytealg.MakeNoZero":
		n := int(e.argInt(args[0]))
		at := types.NewArray(types.Typ[types.Uint8], int64(n))
		o := e.newObject(at, "bytes")
		st.heap[o] = copyAgg(e.zero(at), st.epoch)
		nn := c.BVConst(uint64(n), 64)
		return ret(st, &SliceV{Base: &PtrV{Obj: o}, Off: c.BVConst(0, 64), Len: nn, Cap: nn}), true
	case "hash/maphash.MakeSeed":
		// an arbitrary but fixed seed
		return ret(st, &StructV{F: []Value{c.BVConst(0x9e3779b97f4a7c15, 64)}}), true
	case "(*hash/maphash.Hash).SetSeed":
		h := args[0].(*PtrV)
		hv := e.load(st, h).(*StructV)
		hv.F[1], hv.F[2] = args[1], args[1]
		e.store(st, h, hv)
		return ret(st, nil), true
	case "(*hash/maphash.Hash).WriteString", "(*hash/maphash.Hash).Write":
		// the hash is an uninterpreted fold over the bytes written (collisions are therefore possible)
		h := args[0].(*PtrV)
		hv := e.load(st, h).(*StructV)
		acc := hv.F[2].(*StructV).F[0].(*Term)
		s := e.asStr(st, args[1])
		off, ln, ok := strWindow(s)
		if !ok {
			panic(unsupported("maphash over a string of symbolic length"))
		}
		for i := 0; i < ln; i++ {
			if acc.IsConst() && s.B[off+i].IsConst() {
				// concrete bytes: a concrete FNV-1a step keeps map keys concrete
				acc = c.BVConst((acc.val^s.B[off+i].val)*1099511628211, 64)
			} else {
				acc = c.UF("maphash", BV(64), acc, c.Zext(s.B[off+i], 64))
			}
		}
		hv.F[2] = &StructV{F: []Value{acc}}
		e.store(st, h, hv)
		return ret(st, &StructV{F: []Value{s.Len, &IfaceV{}}}), true
	case "(*hash/maphash.Hash).Sum64":
		hv := e.load(st, args[0].(*PtrV)).(*StructV)
		return ret(st, hv.F[2].(*StructV).F[0]), true
	case "(*strings.Builder).String":
		bv := e.load(st, args[0].(*PtrV)).(*StructV)
		return ret(st, e.bytesToStr(st, bv.F[1].(*SliceV))), true
	case "math.Float32bits":
		return ret(st, c.FToBits(args[0].(*Term))), true
	case "math.Float64bits":
		return ret(st, c.FToBits(args[0].(*Term))), true
	case "math.Float32frombits":
		return ret(st, c.BitsToF(args[0].(*Term), SF32)), true
	case "math.Float64frombits":
		return ret(st, c.BitsToF(args[0].(*Term), SF64)), true
	case "math.IsNaN":
		return ret(st, c.FIsNaN(args[0].(*Term))), true
	case "math.Floor", "math.Ceil", "math.Log2", "math.Pow", "math.Round", "math.Trunc", "math.Sqrt", "math.Abs", "math.Log", "math.Exp", "math.Mod":
		if x, ok := args[0].(*Term); ok && !x.IsConst() && len(args) == 1 {
			if mode, ok := map[string]int{"math.Floor": 0, "math.Ceil": 1, "math.Trunc": 2, "math.Round": 3, "math.Abs": 4, "math.Sqrt": 5}[full]; ok {
				return ret(st, c.FUnary(mode, x)), true
			}
		}
		return ret(st, e.mathConcrete(full, args)), true
	case "(*sync.Mutex).Lock", "(*sync.Mutex).Unlock", "(*sync.RWMutex).Lock", "(*sync.RWMutex).Unlock", "(*sync.RWMutex).RLock", "(*sync.RWMutex).RUnlock":
		return ret(st, nil), true
	case "sort.Slice", "sort.SliceStable":
		return e.sortSlice(st, args, callSite), true
	case "internal/bytealg.IndexByte", "internal/bytealg.IndexByteString":
		return ret(st, e.indexByte(st, args[0], args[1].(*Term))), true
	case "internal/bytealg.Count", "internal/bytealg.CountString":
		s := e.asStr(st, args[0])
		n := len(s.B)
		if s.Len.IsConst() {
			n = int(s.Len.val)
		}
		r := c.BVConst(0, 64)
		for i := 0; i < n; i++ {
			it := c.BVConst(uint64(i), 64)
			hit := c.And(c.BvBin(OpUlt, it, s.Len), c.Eq(e.strByte(s, it), args[1].(*Term)))
			r = c.BvBin(OpAdd, r, c.Ite(hit, c.BVConst(1, 64), c.BVConst(0, 64)))
		}
		return ret(st, r), true
	case "internal/bytealg.Compare":
		a, bb := e.asStr(st, args[0]), e.asStr(st, args[1])
		m1 := c.BVConst(^uint64(0), 64)
		return ret(st, c.Ite(e.strLess(a, bb), m1, c.Ite(e.strEq(a, bb), c.BVConst(0, 64), c.BVConst(1, 64)))), true
	case "internal/bytealg.Index", "internal/bytealg.IndexString", "strings.Index", "bytes.Index":
		a, aok := concreteStr(e.asStr(st, args[0]))
		bb, bok := concreteStr(e.asStr(st, args[1]))
		if !aok || !bok {
			if full == "strings.Index" || full == "bytes.Index" {
				return nil, false // run the real code
			}
			panic(unsupported(full + " on symbolic operands"))
		}
		return ret(st, c.BVConst(uint64(int64(strings.Index(a, bb))), 64)), true
	case "internal/bytealg.LastIndexByte", "internal/bytealg.LastIndexByteString":
		s := e.asStr(st, args[0])
		n := len(s.B)
		if s.Len.IsConst() {
			n = int(s.Len.val)
		}
		r := c.BVConst(^uint64(0), 64)
		for i := 0; i < n; i++ {
			it := c.BVConst(uint64(i), 64)
			hit := c.And(c.BvBin(OpUlt, it, s.Len), c.Eq(e.strByte(s, it), args[1].(*Term)))
			r = c.Ite(hit, it, r)
		}
		return ret(st, r), true
	case "internal/bytealg.Equal":
		a, b := e.bytesToStr(st, args[0].(*SliceV)), e.bytesToStr(st, args[1].(*SliceV))
		return ret(st, e.strEq(a, b)), true
	case "unicode.Is":
		if t, ok := args[1].(*Term); ok && !t.IsConst() {
			alts, ok := e.ptrAlts(args[0])
			if !ok {
				panic(unsupported("unicode.Is on a non-pointer table"))
			}
			r := c.False
			for _, a := range alts {
				r = c.Or(r, c.And(a.G, e.unicodeIs(st, a.P, t)))
			}
			return ret(st, r), true
		}
		return nil, false
	case "math/bits.OnesCount64", "math/bits.OnesCount32", "math/bits.OnesCount16", "math/bits.OnesCount8", "math/bits.OnesCount":
		return ret(st, e.popcountTerm(args[0].(*Term))), true
	case "math/bits.TrailingZeros32", "math/bits.TrailingZeros64", "math/bits.TrailingZeros":
		return ret(st, e.ctzTerm(args[0].(*Term))), true
	case "math/bits.LeadingZeros32", "math/bits.LeadingZeros64", "math/bits.LeadingZeros", "math/bits.LeadingZeros16", "math/bits.LeadingZeros8":
		return ret(st, e.clzTerm(args[0].(*Term))), true
	case "math/bits.Len32", "math/bits.Len64", "math/bits.Len", "math/bits.Len16", "math/bits.Len8":
		x := args[0].(*Term)
		return ret(st, c.BvBin(OpSub, c.BVConst(uint64(x.sort.W), 64), e.clzTerm(x))), true
	}
	return nil, false
}

// concretize forks over every feasible value of t (bounded by 64 values).
func (e *Exec) concretize(st *State, t *Term, limit int) []Outcome {
	if t.IsConst() {
		return ret(st, t)
	}
	var outs []Outcome
	cur := st
	for i := 0; i < limit; i++ {
		if e.sol.Check(cur.pc, nil, e.cfg.FeasMs*5) != "sat" {
			if i == 0 {
				panic(unsupported("concretize: solver did not answer sat"))
			}
			return outs
		}
		vals, err := e.sol.Values([]*Term{t})
		if err != nil {
			panic(unsupported("concretize: " + err.Error()))
		}
		k := e.ctx.BVConst(vals[0], t.sort.W)
		s := e.fork(cur)
		s.assume(e.ctx.Eq(t, k))
		outs = append(outs, Outcome{kind: OReturn, st: s, val: k})
		cur.assume(e.ctx.Not(e.ctx.Eq(t, k)))
	}
	panic(unsupported("concretize: too many values"))
}

func (e *Exec) opaqueError(st *State, msg string) Value {
	pkg := e.prog.ImportedPackage("errors")
	if pkg == nil {
		panic(unsupported("errors package not loaded"))
	}
	tn := pkg.Type("errorString")
	if tn == nil {
		panic(unsupported("errors.errorString not found"))
	}
	o := e.newObject(tn.Type(), "error")
	st.heap[o] = &StructV{F: []Value{e.strConst(msg)}, owner: st.epoch}
	return &IfaceV{T: types.NewPointer(tn.Type()), V: &PtrV{Obj: o}}
}

func (e *Exec) popcountTerm(x *Term) *Term {
	c := e.ctx
	r := c.BVConst(0, 64)
	for i := 0; i < x.sort.W; i++ {
		r = c.BvBin(OpAdd, r, c.Zext(c.Extract(x, i, i), 64))
	}
	return r
}

func (e *Exec) ctzTerm(x *Term) *Term {
	c := e.ctx
	w := x.sort.W
	r := c.BVConst(uint64(w), 64)
	for i := w - 1; i >= 0; i-- {
		r = c.Ite(c.Eq(c.Extract(x, i, i), c.BVConst(1, 1)), c.BVConst(uint64(i), 64), r)
	}
	return r
}

func (e *Exec) clzTerm(x *Term) *Term {
	c := e.ctx
	w := x.sort.W
	r := c.BVConst(uint64(w), 64)
	for i := 0; i < w; i++ {
		r = c.Ite(c.Eq(c.Extract(x, i, i), c.BVConst(1, 1)), c.BVConst(uint64(w-1-i), 64), r)
	}
	return r
}

func (e *Exec) indexByte(st *State, hay Value, b *Term) *Term {
	c := e.ctx
	var s *StrV
	switch h := hay.(type) {
	case *StrV:
		s = h
	case *SliceV:
		s = e.bytesToStr(st, h)
	}
	n := len(s.B)
	if s.Len.IsConst() {
		n = int(s.Len.val)
	}
	r := c.BVConst(^uint64(0), 64)
	for i := n - 1; i >= 0; i-- {
		it := c.BVConst(uint64(i), 64)
		hit := c.And(c.BvBin(OpUlt, it, s.Len), c.Eq(e.strByte(s, it), b))
		r = c.Ite(hit, it, r)
	}
	return r
}

// ---- builtins ----

func (e *Exec) callBuiltin(st *State, fr *Frame, b *ssa.Builtin, args []Value, cc *ssa.CallCommon, in ssa.Instruction) []Outcome {
	c := e.ctx
	switch b.Name() {
	case "len":
		switch x := args[0].(type) {
		case *SliceV:
			return ret(st, x.Len)
		case *StrV:
			return ret(st, x.Len)
		case *MapV:
			return ret(st, e.mapLen(st, x))
		case *ArrayV:
			return ret(st, c.BVConst(uint64(len(x.E)), 64))
		case *PtrV:
			n := cc.Args[0].Type().Underlying().(*types.Pointer).Elem().Underlying().(*types.Array).Len()
			return ret(st, c.BVConst(uint64(n), 64))
		}
	case "cap":
		switch x := args[0].(type) {
		case *SliceV:
			return ret(st, x.Cap)
		case *ArrayV:
			return ret(st, c.BVConst(uint64(len(x.E)), 64))
		case *PtrV:
			n := cc.Args[0].Type().Underlying().(*types.Pointer).Elem().Underlying().(*types.Array).Len()
			return ret(st, c.BVConst(uint64(n), 64))
		}
	case "append":
		return e.appendOp(st, args[0].(*SliceV), args[1], cc.Args[0].Type().Underlying().(*types.Slice).Elem())
	case "copy":
		return e.copyOp(st, args[0].(*SliceV), args[1])
	case "delete":
		e.mapDelete(st, args[0].(*MapV), args[1])
		return ret(st, nil)
	case "print", "println":
		return ret(st, nil)
	case "recover":
		n := len(st.panics)
		if n == 0 || st.panics[n-1].Info == nil || st.panics[n-1].Recovered {
			return ret(st, &IfaceV{})
		}
		top := st.panics[n-1]
		st.panics = append(append([]*PanicSlot(nil), st.panics[:n-1]...), &PanicSlot{Val: top.Val, Info: top.Info, Recovered: true})
		v := top.Val
		if _, ok := v.(*IfaceV); !ok {
			v = &IfaceV{T: types.Typ[types.String], V: e.strConst(top.Info.Msg)}
		}
		return ret(st, v)
	case "min", "max":
		acc := args[0].(*Term)
		t := cc.Args[0].Type()
		for _, a := range args[1:] {
			y := a.(*Term)
			var less *Term
			switch {
			case isFloat(t):
				less = c.FBin(OpFLt, y, acc)
			case isSigned(t):
				less = c.BvBin(OpSlt, y, acc)
			default:
				less = c.BvBin(OpUlt, y, acc)
			}
			if b.Name() == "max" {
				switch {
				case isFloat(t):
					less = c.FBin(OpFLt, acc, y)
				case isSigned(t):
					less = c.BvBin(OpSlt, acc, y)
				default:
					less = c.BvBin(OpUlt, acc, y)
				}
			}
			acc = c.Ite(less, y, acc)
		}
		return ret(st, acc)
	case "ssa:wrapnilchk":
		if p, ok := args[0].(*PtrV); ok && isNilPtr(p) {
			return []Outcome{{kind: OPanic, st: st, pinfo: &PanicInfo{Kind: "runtime", Msg: "value method called using nil pointer", Site: "wrapnilchk"}}}
		}
		return ret(st, args[0])
	}
	panic(unsupported("builtin " + b.Name()))
}

var sizeClasses = []int{0, 8, 16, 24, 32, 48, 64, 80, 96, 112, 128, 144, 160, 176, 192, 208, 224, 240, 256, 288, 320, 352, 384, 416, 448, 480, 512, 576, 640, 704, 768, 896, 1024, 1152, 1280, 1408, 1536, 1792, 2048, 2304, 2688, 3072, 3200, 3456, 4096, 4864, 5120, 5376, 6144, 6528, 6784, 6912, 8192, 9472, 9728, 10240, 10880, 12288, 13568, 14336, 16384, 18432, 19072, 20480, 21760, 24576, 27264, 28672, 32768}

func roundupsize(n int) int {
	for _, s := range sizeClasses {
		if s >= n {
			return s
		}
	}
	return (n + 8191) / 8192 * 8192
}

// growCap mirrors runtime.growslice (go1.20+) for element size esz.
func growCap(oldLen, oldCap, newLen, esz int) int {
	newcap := oldCap
	doublecap := newcap + newcap
	if newLen > doublecap {
		newcap = newLen
	} else {
		const threshold = 256
		if oldCap < threshold {
			newcap = doublecap
		} else {
			for 0 < newcap && newcap < newLen {
				newcap += (newcap + 3*threshold) / 4
			}
			if newcap <= 0 {
				newcap = newLen
			}
		}
	}
	if esz <= 0 {
		return newcap
	}
	mem := roundupsize(newcap * esz)
	return mem / esz
}

// window returns the number of cells from the slice's offset to the end of its backing array;
// with a symbolic offset it is the whole backing array length.
func (e *Exec) window(st *State, s *SliceV) int {
	if s.Base == nil {
		return 0
	}
	arr := e.walk(e.root(st, s.Base.Obj), s.Base.Path).(*ArrayV)
	if s.Off.IsConst() {
		return len(arr.E) - int(s.Off.val)
	}
	return len(arr.E)
}

func (e *Exec) elemsOf(st *State, src Value) (get func(i int) Value, ln *Term, bound int) {
	c := e.ctx
	switch t := src.(type) {
	case *SliceV:
		bound = e.window(st, t)
		if t.Len.IsConst() {
			bound = int(t.Len.val)
		}
		return func(i int) Value { return e.load(st, e.sliceElemPtr(t, c.BVConst(uint64(i), 64))) }, t.Len, bound
	case *StrV:
		bound = len(t.B)
		if t.Len.IsConst() {
			bound = int(t.Len.val)
		}
		return func(i int) Value { return e.strByte(t, c.BVConst(uint64(i), 64)) }, t.Len, bound
	}
	panic(unsupported(fmt.Sprintf("elements of %T", src)))
}

func (e *Exec) storeG(st *State, p *PtrV, val Value, g *Term) {
	if g.IsFalse() {
		return
	}
	if p.Obj.frozen {
		e.frozenWrite(st, p)
	}
	root := e.root(st, p.Obj)
	st.heap[p.Obj] = e.storeAt(st, root, p.Path, val, g)
}

func (e *Exec) appendOp(st *State, s *SliceV, t Value, elem types.Type) []Outcome {
	c := e.ctx
	get, tl, k := e.elemsOf(st, t)
	if k == 0 {
		return ret(st, s)
	}
	n := c.BvBin(OpAdd, s.Len, tl)
	// read sources first
	vals := make([]Value, k)
	for i := 0; i < k; i++ {
		vals[i] = get(i)
	}
	var outs []Outcome
	fits := c.False
	if s.Base != nil {
		fits = c.BvBin(OpUle, n, s.Cap)
	}
	if !tl.IsConst() {
		// appending zero elements returns the slice unchanged
		z, nz := e.branch(st, c.Eq(tl, c.BVConst(0, 64)))
		if z != nil {
			outs = append(outs, Outcome{kind: OReturn, st: z, val: s})
		}
		if nz == nil {
			return outs
		}
		st = nz
	}
	in, re := e.branch(st, fits)
	if in != nil {
		if s.Base != nil {
			for i := 0; i < k; i++ {
				it := c.BVConst(uint64(i), 64)
				g := c.BvBin(OpUlt, it, tl)
				e.storeG(in, e.sliceElemPtr(s, c.BvBin(OpAdd, s.Len, it)), vals[i], g)
			}
			outs = append(outs, Outcome{kind: OReturn, st: in, val: &SliceV{Base: s.Base, Off: s.Off, Len: n, Cap: s.Cap}})
		} else {
			outs = append(outs, Outcome{kind: OReturn, st: in, val: s})
		}
	}
	if re != nil {
		esz := int(e.sizes.Sizeof(elem))
		var newCells int
		var capT *Term
		oldBound := 0
		if s.Base != nil {
			oldBound = e.window(re, s)
			if s.Len.IsConst() {
				oldBound = int(s.Len.val)
			}
		}
		if s.Len.IsConst() && tl.IsConst() && s.Cap.IsConst() {
			newCells = growCap(int(s.Len.val), int(s.Cap.val), int(n.val), esz)
			capT = c.BVConst(uint64(newCells), 64)
		} else {
			newCells = oldBound + k
			capT = n
		}
		at := types.NewArray(elem, int64(newCells))
		o := e.newObject(at, "append "+elem.String())
		arr := copyAgg(e.zero(at), re.epoch).(*ArrayV)
		for i := 0; i < oldBound && i < newCells; i++ {
			arr.E[i] = copyAgg(e.load(re, e.sliceElemPtr(s, c.BVConst(uint64(i), 64))), re.epoch)
		}
		re.heap[o] = arr
		ns := &SliceV{Base: &PtrV{Obj: o}, Off: c.BVConst(0, 64), Len: n, Cap: capT}
		for i := 0; i < k; i++ {
			it := c.BVConst(uint64(i), 64)
			g := c.BvBin(OpUlt, it, tl)
			e.storeG(re, e.sliceElemPtr(ns, c.BvBin(OpAdd, s.Len, it)), vals[i], g)
		}
		outs = append(outs, Outcome{kind: OReturn, st: re, val: ns})
	}
	return outs
}

func (e *Exec) copyOp(st *State, dst *SliceV, src Value) []Outcome {
	c := e.ctx
	get, sl, k := e.elemsOf(st, src)
	n := c.Ite(c.BvBin(OpUlt, sl, dst.Len), sl, dst.Len)
	if dst.Base == nil || k == 0 {
		return ret(st, n)
	}
	db := e.window(st, dst)
	if dst.Len.IsConst() {
		db = int(dst.Len.val)
	}
	if db < k {
		k = db
	}
	vals := make([]Value, k)
	for i := 0; i < k; i++ {
		vals[i] = get(i)
	}
	for i := 0; i < k; i++ {
		it := c.BVConst(uint64(i), 64)
		e.storeG(st, e.sliceElemPtr(dst, it), vals[i], c.BvBin(OpUlt, it, n))
	}
	return ret(st, n)
}

// ---- range / next ----

type IterV struct {
	Obj  *Object // holds the position (BV64 constant)
	Str  *StrV
	Map  *MapV
	Keys []int
}

// rangeAlts creates the iterator; a map whose membership is symbolic is split on the liveness
// of each such entry so that the iteration sequence is concrete on every continuation.
func (e *Exec) rangeAlts(st *State, fr *Frame, x *ssa.Range) ([]contAlt, bool) {
	v := e.eval(st, fr, x.X)
	mkObj := func(s *State) *Object {
		o := e.newObject(types.Typ[types.Int], "iter")
		s.heap[o] = e.ctx.BVConst(0, 64)
		return o
	}
	switch t := v.(type) {
	case *StrV:
		e.setReg(fr, x, &IterV{Obj: mkObj(st), Str: t})
		return nil, true
	case *MapV:
		if t.Obj == nil {
			e.setReg(fr, x, &IterV{Obj: mkObj(st), Map: t})
			return nil, true
		}
		md := e.mapData(st, t)
		type part struct {
			st   *State
			fr   *Frame
			keys []int
		}
		parts := []part{{st, fr, nil}}
		for i, en := range md.Entries {
			if en.Alive.IsFalse() {
				continue
			}
			if en.Alive.IsTrue() {
				for k := range parts {
					parts[k].keys = append(parts[k].keys, i)
				}
				continue
			}
			var np []part
			for _, p := range parts {
				ts, fs := e.branch(p.st, en.Alive)
				if ts != nil && fs != nil {
					np = append(np, part{ts, p.fr, append(append([]int(nil), p.keys...), i)}, part{fs, p.fr.clone(), append([]int(nil), p.keys...)})
				} else if ts != nil {
					np = append(np, part{ts, p.fr, append(p.keys, i)})
				} else if fs != nil {
					np = append(np, part{fs, p.fr, p.keys})
				}
			}
			parts = np
		}
		if len(parts) == 0 {
			return nil, false
		}
		var alts []contAlt
		for _, p := range parts {
			e.setReg(p.fr, x, &IterV{Obj: mkObj(p.st), Map: t, Keys: p.keys})
			alts = append(alts, contAlt{p.st, p.fr})
		}
		if len(alts) == 1 && alts[0].st == st && alts[0].fr == fr {
			return nil, true
		}
		return alts, true
	}
	panic(unsupported(fmt.Sprintf("range over %T", v)))
}

func (e *Exec) next(st *State, fr *Frame, x *ssa.Next, res *[]Outcome) ([]contAlt, bool) {
	c := e.ctx
	it := e.eval(st, fr, x.Iter).(*IterV)
	pos := int(e.root(st, it.Obj).(*Term).val)
	tup := x.Type().(*types.Tuple)
	if it.Map != nil {
		if pos >= len(it.Keys) {
			e.setReg(fr, x, &StructV{F: []Value{c.False, e.zero(tup.At(1).Type()), e.zero(tup.At(2).Type())}})
			return nil, true
		}
		md := e.mapData(st, it.Map)
		en := md.Entries[it.Keys[pos]]
		st.heap[it.Obj] = c.BVConst(uint64(pos+1), 64)
		k, v := en.K, copyAgg(en.V, 0)
		// when the key type is invalid (blank), ssa still types the tuple
		e.setReg(fr, x, &StructV{F: []Value{c.True, k, v}})
		return nil, true
	}
	s := it.Str
	k64 := func(v uint64) *Term { return c.BVConst(v, 64) }
	p := k64(uint64(pos))
	done := &StructV{F: []Value{c.False, k64(0), c.BVConst(0, 32)}}
	mk := func(w int, r *Term) Value {
		return &StructV{F: []Value{c.True, p, r}}
	}
	type alt struct {
		cond *Term
		w    int
		r    *Term
	}
	inRange := func(i int) *Term { return c.BvBin(OpUlt, k64(uint64(pos+i)), s.Len) }
	byteAt := func(i int) *Term {
		ab := int(s.Off.val) + pos + i
		if !s.Off.IsConst() {
			return e.strByte(s, k64(uint64(pos+i)))
		}
		if ab >= len(s.B) {
			return c.BVConst(0, 8)
		}
		return s.B[ab]
	}
	b8 := func(v uint64) *Term { return c.BVConst(v, 8) }
	between := func(b *Term, lo, hi uint64) *Term {
		return c.And(c.BvBin(OpUle, b8(lo), b), c.BvBin(OpUle, b, b8(hi)))
	}
	z32 := func(b *Term, m uint64) *Term { return c.Zext(c.BvBin(OpBAnd, b, b8(m)), 32) }
	shl := func(t *Term, n uint64) *Term { return c.BvBin(OpShl, t, c.BVConst(n, 32)) }
	or := func(a, b *Term) *Term { return c.BvBin(OpBOr, a, b) }
	b0, b1, b2, b3 := byteAt(0), byteAt(1), byteAt(2), byteAt(3)
	cont := func(b *Term) *Term { return between(b, 0x80, 0xBF) }
	v2 := c.And(c.And(between(b0, 0xC2, 0xDF), inRange(1)), cont(b1))
	b1ok3 := c.Ite(c.Eq(b0, b8(0xE0)), between(b1, 0xA0, 0xBF), c.Ite(c.Eq(b0, b8(0xED)), between(b1, 0x80, 0x9F), cont(b1)))
	v3 := c.And(c.And(c.And(between(b0, 0xE0, 0xEF), inRange(2)), b1ok3), cont(b2))
	b1ok4 := c.Ite(c.Eq(b0, b8(0xF0)), between(b1, 0x90, 0xBF), c.Ite(c.Eq(b0, b8(0xF4)), between(b1, 0x80, 0x8F), cont(b1)))
	v4 := c.And(c.And(c.And(c.And(between(b0, 0xF0, 0xF4), inRange(3)), b1ok4), cont(b2)), cont(b3))
	r1 := c.Ite(c.BvBin(OpUlt, b0, b8(0x80)), c.Zext(b0, 32), c.BVConst(0xFFFD, 32))
	r2 := or(shl(z32(b0, 0x1F), 6), z32(b1, 0x3F))
	r3 := or(or(shl(z32(b0, 0x0F), 12), shl(z32(b1, 0x3F), 6)), z32(b2, 0x3F))
	r4 := or(or(or(shl(z32(b0, 0x07), 18), shl(z32(b1, 0x3F), 12)), shl(z32(b2, 0x3F), 6)), z32(b3, 0x3F))
	alts := []alt{{c.Not(inRange(0)), 0, nil}, {v2, 2, r2}, {v3, 3, r3}, {v4, 4, r4}, {c.True, 1, r1}}
	cur := st
	curFr := fr
	type pend struct {
		s *State
		f *Frame
		a alt
	}
	var ps []pend
	for _, a := range alts {
		if cur == nil {
			break
		}
		t, f := e.branch(cur, a.cond)
		if t != nil && f != nil {
			// t reuses cur; the remaining alternatives continue on f
			ps = append(ps, pend{t, curFr.clone(), a})
			cur = f
			continue
		}
		if t != nil {
			ps = append(ps, pend{t, curFr, a})
			cur = nil
			break
		}
		cur = f
	}
	if len(ps) == 0 {
		return nil, false
	}
	var cs []contAlt
	for _, p := range ps {
		if p.a.w == 0 {
			e.setReg(p.f, x, done)
		} else {
			p.s.heap[it.Obj] = k64(uint64(pos + p.a.w))
			e.setReg(p.f, x, mk(p.a.w, p.a.r))
		}
		cs = append(cs, contAlt{p.s, p.f})
	}
	return cs, true
}

// mathConcrete evaluates float math functions on constants only.
func (e *Exec) mathConcrete(name string, args []Value) Value {
	xs := make([]float64, len(args))
	for i, a := range args {
		t := a.(*Term)
		if !t.IsConst() {
			panic(unsupported(name + " on a symbolic argument"))
		}
		xs[i] = fbits(t)
	}
	return e.ctx.F64Const(mathFn(name, xs))
}

// unicodeIs encodes unicode.Is(table, r) for a symbolic rune and a concrete table as the
// disjunction of the table's ranges (with stride).
func (e *Exec) unicodeIs(st *State, tab *PtrV, r *Term) *Term {
	c := e.ctx
	if isNilPtr(tab) {
		panic(unsupported("unicode.Is(nil table)"))
	}
	tv := e.load(st, tab).(*StructV) // {R16 []Range16, R32 []Range32, LatinOffset int}
	res := c.False
	ru := r // 32-bit, compare unsigned as the library does (negative runes are never members)
	add := func(sl *SliceV, w int) {
		if sl.Base == nil {
			return
		}
		n := int(e.argInt(sl.Len))
		for i := 0; i < n; i++ {
			rg := e.load(st, e.sliceElemPtr(sl, c.BVConst(uint64(i), 64))).(*StructV)
			lo, hi, stride := rg.F[0].(*Term), rg.F[1].(*Term), rg.F[2].(*Term)
			if !lo.IsConst() || !hi.IsConst() || !stride.IsConst() {
				panic(unsupported("unicode.Is on a non-constant table"))
			}
			l32, h32 := c.BVConst(lo.val, 32), c.BVConst(hi.val, 32)
			in := c.And(c.BvBin(OpUle, l32, ru), c.BvBin(OpUle, ru, h32))
			if stride.val > 1 {
				d := c.BvBin(OpSub, ru, l32)
				in = c.And(in, c.Eq(c.BvBin(OpURem, d, c.BVConst(stride.val, 32)), c.BVConst(0, 32)))
			}
			res = c.Or(res, in)
		}
	}
	add(tv.F[0].(*SliceV), 16)
	add(tv.F[1].(*SliceV), 32)
	return res
}

// lookupFork handles m[k] for a symbolic key over a large map whose keys are all concrete by
// forking on "k == key_i" per entry (plus the miss case): every continuation sees a concrete value.
func (e *Exec) lookupFork(st *State, fr *Frame, x *ssa.Lookup) ([]contAlt, bool) {
	m, ok := e.eval(st, fr, x.X).(*MapV)
	if !ok || m.Obj == nil {
		return nil, false
	}
	k := e.eval(st, fr, x.Index)
	if _, conc := e.keyEnc(k); conc {
		return nil, false
	}
	md := e.mapData(st, m)
	if len(md.Entries) <= 8 || md.nSym() != 0 {
		return nil, false
	}
	mt := x.X.Type().Underlying().(*types.Map)
	var alts []contAlt
	cur, curFr := st, fr
	set := func(s *State, f *Frame, v Value, found bool) {
		if x.CommaOk {
			e.setReg(f, x, &StructV{F: []Value{v, e.ctx.Bool(found)}})
		} else {
			e.setReg(f, x, v)
		}
		alts = append(alts, contAlt{s, f})
	}
	// keys are concrete and pairwise distinct (index mode), so each hit needs only "k == key_i";
	// the miss case is the single conjunct "k differs from every key".
	miss := e.ctx.True
	var hits []MapEntry
	var eqs []*Term
	for _, en := range md.Entries {
		if !en.Alive.IsTrue() {
			if en.Alive.IsFalse() {
				continue
			}
			return nil, false
		}
		eq := e.valueEq(en.K, k)
		if eq.IsFalse() {
			continue
		}
		hits = append(hits, en)
		eqs = append(eqs, eq)
		miss = e.ctx.And(miss, e.ctx.Not(eq))
	}
	for i, en := range hits {
		if e.check(cur, eqs[i]) == "unsat" {
			continue
		}
		hit := e.fork(cur)
		hit.assume(eqs[i])
		set(hit, curFr.clone(), copyAgg(en.V, 0), true)
	}
	if e.check(cur, miss) != "unsat" {
		cur.assume(miss)
		set(cur, curFr, e.zero(mt.Elem()), false)
	}
	return alts, true
}

func (e *Exec) asStr(st *State, v Value) *StrV {
	switch x := v.(type) {
	case *StrV:
		return x
	case *SliceV:
		return e.bytesToStr(st, x)
	}
	panic(unsupported(fmt.Sprintf("string-like operand %T", v)))
}

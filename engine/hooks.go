package main

import (
	"bytes"
	"fmt"
	"go/ast"
	"go/parser"
	"go/printer"
	"go/token"
	"os"
	"path/filepath"
	"sort"
	"strings"
)

// A hook is named "<pkgdir>:<Func>" or "<pkgdir>:<Recv>.<Method>" (Recv without '*'), e.g.
// "harfbuzz:Buffer.Shape" or "harfbuzz:NewFont". injectHooks parses the CURRENT source of the
// package in /repo, prefixes the body of the named function with
//
//	if VfHook_<Recv>_<Func> != nil { return VfHook_<Recv>_<Func>(recv, args...) }
//
// and returns the rewritten file plus a generated file declaring the hook variables, as overlay
// entries. Nothing is written into /repo; the engine and the native replay see the same overlay.
func injectHooks(hooks []string) (map[string][]byte, error) {
	out := map[string][]byte{}
	byPkg := map[string][]string{}
	for _, h := range hooks {
		i := strings.Index(h, ":")
		if i < 0 {
			return nil, fmt.Errorf("bad hook name %q", h)
		}
		byPkg[h[:i]] = append(byPkg[h[:i]], h[i+1:])
	}
	for pkg, names := range byPkg {
		sort.Strings(names)
		dir := filepath.Join(repoRoot, pkg)
		fset := token.NewFileSet()
		entries, err := os.ReadDir(dir)
		if err != nil {
			return nil, err
		}
		type parsed struct {
			path string
			f    *ast.File
		}
		var files []parsed
		for _, e := range entries {
			n := e.Name()
			if e.IsDir() || !strings.HasSuffix(n, ".go") || strings.HasSuffix(n, "_test.go") {
				continue
			}
			p := filepath.Join(dir, n)
			f, err := parser.ParseFile(fset, p, nil, parser.ParseComments)
			if err != nil {
				return nil, err
			}
			files = append(files, parsed{p, f})
		}
		var decls bytes.Buffer
		pkgName := ""
		imports := map[string]string{} // import spec text needed by the hook variable types
		done := map[string]bool{}
		for _, pf := range files {
			pkgName = pf.f.Name.Name
			changed := false
			for _, d := range pf.f.Decls {
				fd, ok := d.(*ast.FuncDecl)
				if !ok || fd.Body == nil {
					continue
				}
				key := fd.Name.Name
				recvType := ""
				if fd.Recv != nil && len(fd.Recv.List) == 1 {
					t := fd.Recv.List[0].Type
					if s, ok := t.(*ast.StarExpr); ok {
						t = s.X
					}
					if id, ok := t.(*ast.Ident); ok {
						recvType = id.Name
						key = id.Name + "." + fd.Name.Name
					}
				}
				want := false
				for _, n := range names {
					if n == key {
						want = true
					}
				}
				if !want {
					continue
				}
				done[key] = true
				hookVar := "VfHook_" + strings.ReplaceAll(key, ".", "_")
				// name every parameter
				var argNames []string
				var sigParams []string
				typeStr := func(e ast.Expr) string {
					var b bytes.Buffer
					printer.Fprint(&b, fset, e)
					return b.String()
				}
				if fd.Recv != nil {
					r := fd.Recv.List[0]
					if len(r.Names) == 0 || r.Names[0].Name == "_" {
						r.Names = []*ast.Ident{ast.NewIdent("vfRecv")}
					}
					argNames = append(argNames, r.Names[0].Name)
					sigParams = append(sigParams, typeStr(r.Type))
				}
				k := 0
				for _, p := range fd.Type.Params.List {
					if len(p.Names) == 0 {
						p.Names = []*ast.Ident{ast.NewIdent(fmt.Sprintf("vfArg%d", k))}
						k++
					}
					for i, n := range p.Names {
						if n.Name == "_" {
							p.Names[i] = ast.NewIdent(fmt.Sprintf("vfArg%d", k))
							k++
						}
						ts := typeStr(p.Type)
						if el, ok := p.Type.(*ast.Ellipsis); ok {
							argNames = append(argNames, p.Names[i].Name+"...")
							ts = "..." + typeStr(el.Elt)
						} else {
							argNames = append(argNames, p.Names[i].Name)
						}
						sigParams = append(sigParams, ts)
					}
				}
				var results []string
				if fd.Type.Results != nil {
					for _, r := range fd.Type.Results.List {
						cnt := len(r.Names)
						if cnt == 0 {
							cnt = 1
						}
						for i := 0; i < cnt; i++ {
							results = append(results, typeStr(r.Type))
						}
					}
				}
				call := fmt.Sprintf("%s(%s)", hookVar, strings.Join(argNames, ", "))
				var stmtSrc string
				if len(results) > 0 {
					stmtSrc = fmt.Sprintf("if %s != nil { return %s }", hookVar, call)
				} else {
					stmtSrc = fmt.Sprintf("if %s != nil { %s; return }", hookVar, call)
				}
				expr, err := parser.ParseFile(token.NewFileSet(), "", "package p\nfunc f() {\n"+stmtSrc+"\n}", 0)
				if err != nil {
					return nil, err
				}
				stmt := expr.Decls[0].(*ast.FuncDecl).Body.List[0]
				fd.Body.List = append([]ast.Stmt{stmt}, fd.Body.List...)
				changed = true
				res := ""
				if len(results) == 1 {
					res = " " + results[0]
				} else if len(results) > 1 {
					res = " (" + strings.Join(results, ", ") + ")"
				}
				fmt.Fprintf(&decls, "// %s replaces %s.%s when set (verification stub)\nvar %s func(%s)%s\n\n", hookVar, pkgName, key, hookVar, strings.Join(sigParams, ", "), res)
				_ = recvType
				// imports used by the signature: copy every import of the file (unused ones are removed below)
				for _, im := range pf.f.Imports {
					name := ""
					if im.Name != nil {
						name = im.Name.Name + " "
					}
					imports[name+im.Path.Value] = im.Path.Value
				}
			}
			if changed {
				var b bytes.Buffer
				if err := printer.Fprint(&b, fset, pf.f); err != nil {
					return nil, err
				}
				out[pf.path] = b.Bytes()
			}
		}
		for _, n := range names {
			if !done[n] {
				return nil, fmt.Errorf("hook target %s:%s not found in the current source", pkg, n)
			}
		}
		// generated declarations file; only keep imports whose package name is referenced
		var gen bytes.Buffer
		fmt.Fprintf(&gen, "package %s\n\n", pkgName)
		var keep []string
		for spec, path := range imports {
			p := strings.Trim(path, "\"")
			base := p[strings.LastIndex(p, "/")+1:]
			if f := strings.Fields(spec); len(f) == 2 {
				base = f[0]
			}
			if strings.Contains(decls.String(), base+".") {
				keep = append(keep, spec)
			}
		}
		sort.Strings(keep)
		if len(keep) > 0 {
			gen.WriteString("import (\n")
			for _, s := range keep {
				gen.WriteString("\t" + s + "\n")
			}
			gen.WriteString(")\n\n")
		}
		gen.Write(decls.Bytes())
		out[filepath.Join(dir, "zz_vf_hooks.go")] = gen.Bytes()
	}
	return out, nil
}

package main

// injectHooks rewrites the functions named in /verif/harness/<pkg>/hooks.json so that a harness can
// replace them by a stub: the body of F is prefixed with `if VfHook_F != nil { return VfHook_F(args...) }`.
func injectHooks(pkg string) (map[string][]byte, error) {
	return nil, nil
}

package main

import (
	"fmt"
	"golang.org/x/tools/go/packages"
	"golang.org/x/tools/go/ssa"
	"golang.org/x/tools/go/ssa/ssautil"
)

func main() {
	cfg := &packages.Config{Mode: packages.LoadAllSyntax, Dir: "/repo"}
	pkgs, err := packages.Load(cfg, "./opentype/...")
	fmt.Println(len(pkgs), err)
	prog, _ := ssautil.AllPackages(pkgs, ssa.InstantiateGenerics)
	prog.Build()
}

package main

import (
	"encoding/json"
	"flag"
	"fmt"
	"os"
	"path/filepath"
	"runtime/pprof"
	"strings"
	"time"

	"golang.org/x/tools/go/packages"
	"golang.org/x/tools/go/ssa"
	"golang.org/x/tools/go/ssa/ssautil"
)

func defaultConfig() Config {
	return Config{MergeDefault: true, MergeMaxBlocks: 60, MergeMaxOutcomes: 6, Policy: map[string]string{}, Unwind: 64, MaxDepth: 200,
		MaxSteps: 50_000_000, MaxPaths: 1 << 30, FeasMs: 5000, FinalMs: 60000, OKSampleMax: 6, StopOnViol: true, Known: map[string]bool{}, AllocBound: 64}
}

// loadProgram loads the packages matching patterns in dir, with overlay files, and builds SSA.
func loadProgram(dir string, overlay map[string][]byte, tags string, patterns ...string) (*ssa.Program, []*packages.Package, error) {
	cfg := &packages.Config{Mode: packages.LoadAllSyntax, Dir: dir, Overlay: overlay, Env: append(os.Environ(), "GOFLAGS=-mod=mod", "GOPROXY=off", "GOSUMDB=off", "GOTOOLCHAIN=local")}
	if tags != "" {
		cfg.BuildFlags = []string{"-tags=" + tags}
	}
	pkgs, err := packages.Load(cfg, patterns...)
	if err != nil {
		return nil, nil, err
	}
	var errs []string
	packages.Visit(pkgs, nil, func(p *packages.Package) {
		for _, e := range p.Errors {
			errs = append(errs, e.Error())
		}
	})
	if len(errs) > 0 {
		return nil, nil, fmt.Errorf("package errors:\n%s", strings.Join(errs, "\n"))
	}
	prog, _ := ssautil.AllPackages(pkgs, ssa.InstantiateGenerics)
	prog.Build()
	return prog, pkgs, nil
}

type HarnessResult struct {
	Harness   string         `json:"harness"`
	Verdict   string         `json:"verdict"` // HELD, VIOLATION, KNOWN, INCONCLUSIVE
	Paths     []PathResult   `json:"paths,omitempty"`
	Stats     Stats          `json:"stats"`
	Events    []Event        `json:"events,omitempty"`
	Covers    map[string]int `json:"covers"`
	Entered   map[string]int `json:"functions_entered"`
	SolverSat int            `json:"solver_sat"`
	SolverUns int            `json:"solver_unsat"`
	SolverUnk int            `json:"solver_unknown"`
	SolverS   float64        `json:"solver_wall_s"`
	WallS     float64        `json:"wall_s"`
	Prefix    []int          `json:"prefix,omitempty"`
	Notes     []string       `json:"notes,omitempty"`
	OKSamples []OKSample     `json:"-"`
}

// runHarness explores one harness function to completion.
func runHarness(prog *ssa.Program, fn *ssa.Function, cfg Config, prefix []int, solverBin, logPath string) (hr HarnessResult) {
	t0 := time.Now()
	e, err := NewExec(prog, cfg, solverBin, logPath)
	hr.Harness = fn.Name()
	hr.Prefix = prefix
	if err != nil {
		hr.Verdict = "INCONCLUSIVE"
		hr.Events = []Event{{"solver", err.Error()}}
		return
	}
	defer e.sol.Close()
	st := e.newState()
	st.prefix = prefix
	var outs []Outcome
	func() {
		defer func() {
			if r := recover(); r != nil {
				switch u := r.(type) {
				case unsupportedErr:
					e.event("unsupported", u.msg)
				case frozenViolation:
					e.event("frozen-write", "store into frozen object "+u.obj.name)
				default:
					panic(r)
				}
			}
		}()
		outs = e.callFn(st, fn, nil, nil, nil)
	}()
	for _, o := range outs {
		e.finishPath(o)
	}
	hr.Paths = e.results
	hr.Stats = e.stats
	hr.Events = e.events
	hr.Notes = e.notes
	hr.OKSamples = e.okSamples
	hr.Covers = e.covers
	hr.Entered = e.entered
	hr.SolverSat, hr.SolverUns, hr.SolverUnk = e.sol.nSat, e.sol.nUnsat, e.sol.nUnknown
	hr.SolverS = e.sol.wall.Seconds()
	hr.WallS = time.Since(t0).Seconds()
	hr.Verdict = "HELD"
	for _, p := range e.results {
		if p.Kind == "known" && hr.Verdict == "HELD" {
			hr.Verdict = "KNOWN"
		}
	}
	if len(e.events) > 0 {
		hr.Verdict = "INCONCLUSIVE"
	}
	if e.stoppedByPeer {
		hr.Verdict = "SKIPPED"
	}
	for _, p := range e.results {
		if p.Kind == "inconclusive" {
			hr.Verdict = "INCONCLUSIVE"
		}
	}
	for _, p := range e.results {
		if p.Kind == "violation" {
			hr.Verdict = "VIOLATION"
		}
	}
	return
}

func (e *Exec) finishPath(o Outcome) {
	e.stats.Paths++
	switch o.kind {
	case OReturn:
		e.stats.PathsOK++
		n := e.stats.PathsOK
		if len(e.okSamples) < e.cfg.OKSampleMax && (n <= 2 || n&(n-1) == 0) {
			e.sampleOK(o.st)
		}
		return
	case ODead:
		e.stats.PathsDead++
		return
	case OPanic:
	default:
		return
	}
	pr := PathResult{Label: o.pinfo.Kind + ": " + o.pinfo.Msg, Site: o.pinfo.where(), Covers: o.st.covers}
	if e.cfg.OnlyLabel != nil && !e.cfg.OnlyLabel.MatchString(pr.Label) {
		e.stats.PathsForeign++
		return
	}
	for _, cv := range o.st.covers {
		if strings.HasPrefix(cv, "known:") {
			pr.Known = strings.TrimPrefix(cv, "known:")
		}
	}
	r := e.sol.Check(o.st.pc, nil, e.cfg.FinalMs)
	switch r {
	case "unsat":
		e.stats.PathsDead++
		return
	case "unknown":
		pr.Kind = "inconclusive"
		pr.Label += " (solver: unknown on the path condition; " + e.sol.lastErr + ")"
		e.results = append(e.results, pr)
		return
	}
	var ts []*Term
	for _, d := range o.st.draws {
		ts = append(ts, d.T)
		ts = append(ts, d.Args...)
	}
	vals, err := e.sol.Values(ts)
	if err != nil {
		pr.Kind = "inconclusive"
		pr.Label += " (model extraction failed: " + err.Error() + ")"
		e.results = append(e.results, pr)
		return
	}
	k := 0
	for _, d := range o.st.draws {
		dv := DrawVal{Name: d.Name, Val: vals[k]}
		k++
		if d.Kind == "uf" {
			dv.Name = "uf:" + d.Name
			for range d.Args {
				dv.Args = append(dv.Args, vals[k])
				k++
			}
		}
		pr.Model = append(pr.Model, dv)
	}
	if pr.Known != "" {
		pr.Kind = "known"
		e.stats.PathsKnown++
	} else {
		pr.Kind = "violation"
		e.stats.PathsViol++
		if e.cfg.StopOnViol {
			e.stopAll = true
		}
	}
	e.results = append(e.results, pr)
}

func main() {
	if len(os.Args) < 2 {
		fmt.Println("usage: gosym run|check ...")
		os.Exit(2)
	}
	switch os.Args[1] {
	case "run":
		cmdRun(os.Args[2:])
	case "check":
		cmdCheck(os.Args[2:])
	default:
		fmt.Println("unknown command")
		os.Exit(2)
	}
}

// cmdRun: development entry: gosym run -dir D -pkg P -overlaydir O -fn Name [-nomerge]
func cmdRun(args []string) {
	fs := flag.NewFlagSet("run", flag.ExitOnError)
	dir := fs.String("dir", "/repo", "module dir")
	pkg := fs.String("pkg", ".", "package pattern")
	ovd := fs.String("overlaydir", "", "directory whose *.go files are injected into the package dir")
	fnName := fs.String("fn", "", "harness function name (comma separated)")
	nomerge := fs.Bool("nomerge", false, "fork everywhere")
	verbose := fs.Int("v", 0, "verbosity")
	solver := fs.String("solver", "z3-new", "solver binary")
	logp := fs.String("log", "", "SMT transcript path")
	all := fs.Bool("all", false, "do not stop at the first violation")
	slow := fs.Int("slow", 0, "log queries slower than this many ms")
	unwind := fs.Int("unwind", 64, "loop bound")
	prefixS := fs.String("prefix", "", "comma separated pre-assigned vfChoice values")
	thorough := fs.Bool("thorough", false, "thorough tier")
	ptrChoice := fs.Bool("ptrchoice", false, "allow guarded pointer choices")
	summ := fs.String("summarise", "", "comma separated functions to summarise over finite domains")
	prof := fs.String("prof", "", "cpu profile")
	hpkg := fs.String("hpkg", "", "harness package dir relative to /repo (uses /verif/harness/<dir>, hooks and generators like check does)")
	fs.Parse(args)
	if *prof != "" {
		f, _ := os.Create(*prof)
		pprof.StartCPUProfile(f)
		defer pprof.StopCPUProfile()
	}
	overlay := map[string][]byte{}
	if *ovd != "" {
		files, _ := filepath.Glob(filepath.Join(*ovd, "*.go"))
		pdir := filepath.Join(*dir, strings.TrimPrefix(*pkg, "./"))
		pkgName := ""
		for _, f := range files {
			b, _ := os.ReadFile(f)
			overlay[filepath.Join(pdir, "zz_"+filepath.Base(f))] = b
			for _, l := range strings.Split(string(b), "\n") {
				if strings.HasPrefix(l, "package ") && pkgName == "" {
					pkgName = strings.TrimSpace(strings.TrimPrefix(l, "package "))
				}
			}
		}
		if tmpl, err := os.ReadFile("/verif/harness/vf_rt.go.tmpl"); err == nil && pkgName != "" {
			overlay[filepath.Join(pdir, "zz_vf_rt.go")] = []byte(strings.Replace(string(tmpl), "PKGNAME", pkgName, 1))
		}
	}
	if *hpkg != "" {
		ov, err := buildOverlay([]string{*hpkg}, nil)
		if err != nil {
			fmt.Println("overlay:", err)
			os.Exit(2)
		}
		var idx Index
		readJSON(filepath.Join(verifRoot, "harness", "index.json"), &idx)
		for _, h := range idx.Harnesses {
			if h.Pkg != *hpkg {
				continue
			}
			for _, g := range h.Gen {
				out, err := runGen(g)
				if err == nil {
					ov[filepath.Join(repoRoot, h.Pkg, "zz_"+g.File)] = out
				}
			}
		}
		overlay = ov
		*pkg = "./" + *hpkg
	}
	t0 := time.Now()
	prog, pkgs, err := loadProgram(*dir, overlay, "verif", *pkg)
	if err != nil {
		fmt.Println("load:", err)
		os.Exit(2)
	}
	fmt.Printf("loaded in %.1fs\n", time.Since(t0).Seconds())
	sp := prog.Package(pkgs[0].Types)
	cfg := defaultConfig()
	cfg.MergeDefault = !*nomerge
	cfg.Verbose = *verbose
	cfg.StopOnViol = !*all
	cfg.Unwind = *unwind
	SlowLog = *slow
	exit := 0
	for _, name := range strings.Split(*fnName, ",") {
		fn := sp.Func(name)
		if fn == nil {
			fmt.Println("no such function", name)
			os.Exit(2)
		}
		var prefix []int
		for _, p := range strings.Split(*prefixS, ",") {
			if p != "" {
				k := 0
				fmt.Sscan(p, &k)
				prefix = append(prefix, k)
			}
		}
		cfg.Thorough = *thorough
		cfg.PtrChoice = *ptrChoice
		cfg.LazyFeas = false
		cfg.Summarise = map[string]bool{}
		for _, f := range strings.Split(*summ, ",") {
			if f != "" {
				cfg.Summarise[f] = true
			}
		}
		hr := runHarness(prog, fn, cfg, prefix, *solver, *logp)
		hr.Entered = nil
		b, _ := json.MarshalIndent(hr, "", " ")
		fmt.Println(string(b))
		if hr.Verdict != "HELD" {
			exit = 1
		}
	}
	pprof.StopCPUProfile()
	os.Exit(exit)
}

// sampleOK records a model of a completed path for translator validation (native replay must also complete).
func (e *Exec) sampleOK(st *State) {
	if e.sol.Check(st.pc, nil, e.cfg.FeasMs) != "sat" {
		return
	}
	var ts []*Term
	for _, d := range st.draws {
		ts = append(ts, d.T)
		ts = append(ts, d.Args...)
	}
	for _, o := range st.observes {
		ts = append(ts, o.T)
	}
	vals, err := e.sol.Values(ts)
	if err != nil {
		return
	}
	var s OKSample
	k := 0
	for _, d := range st.draws {
		dv := DrawVal{Name: d.Name, Val: vals[k]}
		k++
		if d.Kind == "uf" {
			dv.Name = "uf:" + d.Name
			for range d.Args {
				dv.Args = append(dv.Args, vals[k])
				k++
			}
		}
		s.Model = append(s.Model, dv)
	}
	for _, o := range st.observes {
		s.Observe = append(s.Observe, DrawVal{Name: o.Name, Val: vals[k]})
		k++
	}
	e.okSamples = append(e.okSamples, s)
}

package main

import (
	"fmt"
	"math"

	"golang.org/x/tools/go/ssa"
)

func mathFn(name string, xs []float64) float64 {
	switch name {
	case "math.Floor":
		return math.Floor(xs[0])
	case "math.Ceil":
		return math.Ceil(xs[0])
	case "math.Log2":
		return math.Log2(xs[0])
	case "math.Pow":
		return math.Pow(xs[0], xs[1])
	case "math.Round":
		return math.Round(xs[0])
	case "math.Trunc":
		return math.Trunc(xs[0])
	case "math.Sqrt":
		return math.Sqrt(xs[0])
	case "math.Abs":
		return math.Abs(xs[0])
	case "math.Log":
		return math.Log(xs[0])
	case "math.Exp":
		return math.Exp(xs[0])
	case "math.Mod":
		return math.Mod(xs[0], xs[1])
	}
	panic(unsupported(name))
}

// sortSlice models sort.Slice / sort.SliceStable as a stable insertion sort driven by the
// user's less closure. The slice length must be concrete; every less() decision that is
// symbolic forks (the permutation is path-specific).
func (e *Exec) sortSlice(st *State, args []Value, callSite ssa.Instruction) []Outcome {
	iv := args[0].(*IfaceV)
	sl, ok := iv.V.(*SliceV)
	if !ok {
		panic(unsupported("sort.Slice on non-slice"))
	}
	less := args[1].(*FuncV)
	if !sl.Len.IsConst() {
		panic(unsupported("sort.Slice with symbolic length"))
	}
	n := int(sl.Len.val)
	c := e.ctx
	type work struct {
		st   *State
		i, j int
	}
	var done []Outcome
	var rec func(w work)
	rec = func(w work) {
		for w.i < n {
			if w.j == 0 {
				w.i++
				w.j = w.i
				continue
			}
			outs := e.callFn(w.st, less.Fn, []Value{c.BVConst(uint64(w.j), 64), c.BVConst(uint64(w.j-1), 64)}, less.Bind, callSite)
			var conts []Outcome
			for _, o := range outs {
				switch o.kind {
				case OReturn:
					conts = append(conts, o)
				case OPanic:
					done = append(done, o)
				}
			}
			var next []work
			for _, o := range conts {
				b := o.val.(*Term)
				t, f := e.branch(o.st, b)
				if t != nil {
					pj, pk := e.sliceElemPtr(sl, c.BVConst(uint64(w.j), 64)), e.sliceElemPtr(sl, c.BVConst(uint64(w.j-1), 64))
					vj, vk := e.load(t, pj), e.load(t, pk)
					e.store(t, pj, vk)
					e.store(t, pk, vj)
					next = append(next, work{t, w.i, w.j - 1})
				}
				if f != nil {
					next = append(next, work{f, w.i + 1, w.i + 1})
				}
			}
			if len(next) == 0 {
				return
			}
			for _, nw := range next[1:] {
				rec(nw)
			}
			w = next[0]
		}
		done = append(done, Outcome{kind: OReturn, st: w.st})
	}
	rec(work{st, 1, 1})
	return done
}

var _ = fmt.Sprint
var _ *ssa.Function

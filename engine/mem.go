package main

import (
	"fmt"
	"go/types"
	"strings"
)

type Draw struct {
	Name string
	T    *Term
	Kind string // "int","bool","choice","bits","uf"
	Args []*Term
}

type PanicSlot struct {
	Val       Value
	Info      *PanicInfo
	Recovered bool
}

type State struct {
	pc       []*Term
	heap     map[*Object]Value
	epoch    int
	draws    []Draw
	covers   []string
	panics   []*PanicSlot // stack of in-flight panics (innermost last)
	steps    int
	prefix   []int // pre-assigned vfChoice values (consumed from the front)
	npre     int
	depth    int
	observes []Draw
	bind     map[*Term]*Term // var -> constant facts implied by the path condition
	ctx      *Ctx
}

func (e *Exec) newEpoch() int { e.epochs++; return e.epochs }

func (e *Exec) newState() *State {
	return &State{heap: map[*Object]Value{}, epoch: e.newEpoch(), ctx: e.ctx}
}

// fork returns a copy; both the original and the copy get fresh epochs so that
// every heap node becomes copy-on-write for both.
func (e *Exec) fork(st *State) *State {
	n := &State{
		pc:       append([]*Term(nil), st.pc...),
		heap:     make(map[*Object]Value, len(st.heap)+4),
		epoch:    e.newEpoch(),
		draws:    append([]Draw(nil), st.draws...),
		covers:   append([]string(nil), st.covers...),
		panics:   append([]*PanicSlot(nil), st.panics...),
		steps:    st.steps,
		prefix:   st.prefix,
		npre:     st.npre,
		depth:    st.depth,
		observes: append([]Draw(nil), st.observes...),
		bind:     st.bind,
		ctx:      st.ctx,
	}
	for k, v := range st.heap {
		n.heap[k] = v
	}
	st.epoch = e.newEpoch()
	e.stats.Forks++
	return n
}

func (st *State) assume(t *Term) {
	if t.IsTrue() {
		return
	}
	st.pc = append(st.pc, t)
	st.noteFact(t)
}

// noteFact records var == const facts implied by a new path-condition conjunct.
func (st *State) noteFact(t *Term) {
	if st.ctx == nil {
		return
	}
	set := func(v, c *Term) {
		nb := make(map[*Term]*Term, len(st.bind)+1)
		for k, x := range st.bind {
			nb[k] = x
		}
		nb[v] = c
		st.bind = nb
	}
	switch t.op {
	case OpVar:
		if t.sort.K == KBool {
			set(t, st.ctx.True)
		}
	case OpNot:
		if v := t.args[0]; v.op == OpVar && v.sort.K == KBool {
			set(v, st.ctx.False)
		}
	case OpAnd:
		st.noteFact(t.args[0])
		st.noteFact(t.args[1])
	case OpEq:
		a, b := t.args[0], t.args[1]
		if b.IsConst() {
			a, b = b, a
		}
		if !a.IsConst() || a.sort.K != KBV {
			return
		}
		v := b
		for v.op == OpZext || v.op == OpSext {
			v = v.args[0]
		}
		if v.op != OpVar {
			return
		}
		val := a.val & mask(v.sort.W)
		if b.op == OpZext && a.val != val {
			return
		}
		if b.op == OpSext && uint64(sext64(val, v.sort.W))&mask(b.sort.W) != a.val {
			return
		}
		set(v, st.ctx.BVConst(val, v.sort.W))
	}
}

func (e *Exec) newObject(t types.Type, name string) *Object {
	e.nobj++
	o := &Object{id: e.nobj, typ: t, name: name}
	e.allObjs = append(e.allObjs, o)
	return o
}

func (e *Exec) root(st *State, o *Object) Value {
	if v, ok := st.heap[o]; ok {
		return v
	}
	if o.init == nil {
		if o.isMap {
			o.init = &MapData{index: map[string]int{}}
		} else {
			o.init = e.zero(o.typ)
		}
	}
	return o.init
}

// ---- load ----

func (e *Exec) load(st *State, p *PtrV) Value {
	if isNilPtr(p) {
		panic("load through nil pointer must be guarded by caller")
	}
	v := e.walk(e.root(st, p.Obj), p.Path)
	return copyAgg(v, 0)
}

func (e *Exec) walk(v Value, path []PathElem) Value {
	for i, pe := range path {
		if pe.Field >= 0 {
			sv, ok := v.(*StructV)
			if !ok || pe.Field >= len(sv.F) {
				panic(unsupported("pointer reinterpretation (unsafe cast) on load"))
			}
			v = sv.F[pe.Field]
			continue
		}
		arr, ok := v.(*ArrayV)
		if !ok {
			panic(unsupported("pointer reinterpretation (unsafe cast) on indexed load"))
		}
		if pe.Idx.IsConst() {
			k := int(pe.Idx.val)
			if k < 0 || k >= len(arr.E) {
				panic(fmt.Sprintf("internal: concrete index %d out of range %d", k, len(arr.E)))
			}
			v = arr.E[k]
			continue
		}
		// symbolic index: ite chain over all elements (index known in range by the guard at IndexAddr)
		rest := path[i+1:]
		n := len(arr.E)
		if n == 0 {
			panic("internal: symbolic index into empty array")
		}
		lo, hi := idxRange(pe.Idx, n)
		var acc Value
		for k := hi; k >= lo; k-- {
			ek := e.walk(arr.E[k], rest)
			if acc == nil {
				acc = ek
				continue
			}
			g := e.ctx.Eq(pe.Idx, e.ctx.BVConst(uint64(k), 64))
			m, ok := e.mergeValue(g, ek, acc, 0)
			if !ok {
				panic(unsupported(fmt.Sprintf("load at symbolic index of non-mergeable element type (%s vs %s)", describe(ek), describe(acc))))
			}
			acc = m
		}
		return acc
	}
	return v
}

// idxRange gives cheap syntactic bounds for an index term (inclusive), clipped to [0,n-1].
func idxRange(t *Term, n int) (int, int) {
	lo, hi := 0, n-1
	if l, h, ok := termRange(t, 8); ok {
		if l > int64(lo) {
			lo = int(l)
		}
		if h < int64(hi) {
			hi = int(h)
		}
		if lo > hi {
			lo, hi = 0, n-1
		}
	}
	return lo, hi
}

// termRange computes a conservative unsigned range for small terms: ites of constants, zext of narrow values, const adds.
func termRange(t *Term, depth int) (int64, int64, bool) {
	if depth == 0 {
		return 0, 0, false
	}
	switch t.op {
	case OpConst:
		if t.val > 1<<40 {
			return 0, 0, false
		}
		return int64(t.val), int64(t.val), true
	case OpIte:
		l1, h1, ok1 := termRange(t.args[1], depth-1)
		l2, h2, ok2 := termRange(t.args[2], depth-1)
		if ok1 && ok2 {
			if l2 < l1 {
				l1 = l2
			}
			if h2 > h1 {
				h1 = h2
			}
			return l1, h1, true
		}
	case OpZext:
		w := t.args[0].sort.W
		if w <= 16 {
			if l, h, ok := termRange(t.args[0], depth-1); ok {
				return l, h, true
			}
			return 0, int64(1)<<uint(w) - 1, true
		}
		return termRange(t.args[0], depth-1)
	case OpAdd:
		l1, h1, ok1 := termRange(t.args[0], depth-1)
		l2, h2, ok2 := termRange(t.args[1], depth-1)
		if ok1 && ok2 && (t.sort.W >= 63 || uint64(h1+h2) <= mask(t.sort.W)) {
			return l1 + l2, h1 + h2, true
		}
	case OpVar:
		if t.sort.W <= 16 {
			return 0, int64(1)<<uint(t.sort.W) - 1, true
		}
	}
	return 0, 0, false
}

// ---- store ----

func (e *Exec) store(st *State, p *PtrV, val Value) {
	if isNilPtr(p) {
		panic("store through nil pointer must be guarded by caller")
	}
	if p.Obj.frozen {
		e.frozenWrite(st, p)
	}
	root := e.root(st, p.Obj)
	st.heap[p.Obj] = e.storeAt(st, root, p.Path, val, e.ctx.True)
}

func (e *Exec) storeAt(st *State, node Value, path []PathElem, val Value, g *Term) Value {
	if len(path) == 0 {
		nv := copyAgg(val, st.epoch)
		if g.IsTrue() {
			return nv
		}
		m, ok := e.mergeValue(g, nv, node, st.epoch)
		if !ok {
			panic(unsupported("store at symbolic index of non-mergeable element type"))
		}
		return m
	}
	pe := path[0]
	if pe.Field >= 0 {
		s, ok := node.(*StructV)
		if !ok || pe.Field >= len(s.F) {
			panic(unsupported("pointer reinterpretation (unsafe cast) on store"))
		}
		if s.owner != st.epoch {
			s = &StructV{F: append([]Value(nil), s.F...), owner: st.epoch}
		}
		s.F[pe.Field] = e.storeAt(st, s.F[pe.Field], path[1:], val, g)
		return s
	}
	a, ok := node.(*ArrayV)
	if !ok {
		panic(unsupported("pointer reinterpretation (unsafe cast) on indexed store"))
	}
	if a.owner != st.epoch {
		a = &ArrayV{E: append([]Value(nil), a.E...), owner: st.epoch}
	}
	if pe.Idx.IsConst() {
		k := int(pe.Idx.val)
		if k < 0 || k >= len(a.E) {
			if g.IsTrue() {
				panic(fmt.Sprintf("internal: concrete store index %d out of range %d", k, len(a.E)))
			}
			return a // guarded store outside the backing array: the guard is unsatisfiable there
		}
		a.E[k] = e.storeAt(st, a.E[k], path[1:], val, g)
		return a
	}
	lo, hi := idxRange(pe.Idx, len(a.E))
	for k := lo; k <= hi; k++ {
		gk := e.ctx.And(g, e.ctx.Eq(pe.Idx, e.ctx.BVConst(uint64(k), 64)))
		a.E[k] = e.storeAt(st, a.E[k], path[1:], val, gk)
	}
	return a
}

func (e *Exec) frozenWrite(st *State, p *PtrV) {
	e.events = append(e.events, Event{Kind: "frozen-write", Msg: fmt.Sprintf("store into frozen object %s (obj%d)", p.Obj.name, p.Obj.id)})
	panic(frozenViolation{obj: p.Obj})
}

type frozenViolation struct{ obj *Object }

// ---- maps ----

func (e *Exec) mapData(st *State, m *MapV) *MapData {
	return e.root(st, m.Obj).(*MapData)
}

func (e *Exec) keyEnc(k Value) (string, bool) {
	switch x := k.(type) {
	case *Term:
		if x.IsConst() {
			return fmt.Sprintf("t%d:%d:%x", x.sort.K, x.sort.W, x.val), true
		}
		return "", false
	case *StrV:
		s, ok := concreteStr(x)
		return "s:" + s, ok
	case *StructV:
		var sb strings.Builder
		sb.WriteString("{")
		for _, f := range x.F {
			s, ok := e.keyEnc(f)
			if !ok {
				return "", false
			}
			sb.WriteString(s + ";")
		}
		sb.WriteString("}")
		return sb.String(), true
	case *ArrayV:
		var sb strings.Builder
		sb.WriteString("[")
		for _, f := range x.E {
			s, ok := e.keyEnc(f)
			if !ok {
				return "", false
			}
			sb.WriteString(s + ";")
		}
		sb.WriteString("]")
		return sb.String(), true
	case *PtrV:
		if isNilPtr(x) {
			return "p:nil", true
		}
		var sb strings.Builder
		fmt.Fprintf(&sb, "p:%d", x.Obj.id)
		for _, pe := range x.Path {
			if pe.Field >= 0 {
				fmt.Fprintf(&sb, ".%d", pe.Field)
			} else if pe.Idx.IsConst() {
				fmt.Fprintf(&sb, "[%d]", pe.Idx.val)
			} else {
				return "", false
			}
		}
		return sb.String(), true
	case *IfaceV:
		if x.T == nil {
			return "i:nil", true
		}
		s, ok := e.keyEnc(x.V)
		return "i:" + x.T.String() + ":" + s, ok
	}
	return "", false
}

// valueEq builds the Go == relation as a term.
func (e *Exec) valueEq(a, b Value) *Term {
	switch x := a.(type) {
	case *Term:
		y := b.(*Term)
		if x.sort.K == KF32 || x.sort.K == KF64 {
			return e.ctx.FBin(OpFEq, x, y)
		}
		return e.ctx.Eq(x, y)
	case *StrV:
		return e.strEq(x, b.(*StrV))
	case *StructV:
		y := b.(*StructV)
		r := e.ctx.True
		for i := range x.F {
			r = e.ctx.And(r, e.valueEq(x.F[i], y.F[i]))
		}
		return r
	case *ArrayV:
		y := b.(*ArrayV)
		r := e.ctx.True
		for i := range x.E {
			r = e.ctx.And(r, e.valueEq(x.E[i], y.E[i]))
		}
		return r
	case *PtrV, *PtrChoice:
		xa, _ := e.ptrAlts(a)
		ya, ok := e.ptrAlts(b)
		if !ok {
			return e.ctx.False
		}
		r := e.ctx.False
		for _, p := range xa {
			for _, q := range ya {
				r = e.ctx.Or(r, e.ctx.And(e.ctx.And(p.G, q.G), e.ptrEq(p.P, q.P)))
			}
		}
		return r
	case *IfaceV:
		y, ok := b.(*IfaceV)
		if !ok {
			// comparing interface with concrete handled by caller
			return e.ctx.False
		}
		if x.T == nil || y.T == nil {
			return e.ctx.Bool(x.T == nil && y.T == nil)
		}
		if !types.Identical(x.T, y.T) {
			return e.ctx.False
		}
		return e.valueEq(x.V, y.V)
	case *MapV:
		y := b.(*MapV)
		return e.ctx.Bool(x.Obj == y.Obj)
	case *FuncV:
		y := b.(*FuncV)
		return e.ctx.Bool(x.Fn == nil && y.Fn == nil && x.Builtin == nil && y.Builtin == nil)
	case *SliceV:
		y := b.(*SliceV)
		// only comparison with nil is legal in Go
		if x.Base == nil && y.Base == nil {
			return e.ctx.True
		}
		return e.ctx.False
	}
	panic(unsupported(fmt.Sprintf("== on %T", a)))
}

func (e *Exec) ptrEq(x, y *PtrV) *Term {
	if isNilPtr(x) || isNilPtr(y) {
		return e.ctx.Bool(isNilPtr(x) && isNilPtr(y))
	}
	if x.Obj != y.Obj || len(x.Path) != len(y.Path) {
		return e.ctx.False
	}
	r := e.ctx.True
	for i := range x.Path {
		if x.Path[i].Field != y.Path[i].Field {
			return e.ctx.False
		}
		if x.Path[i].Field < 0 {
			r = e.ctx.And(r, e.ctx.Eq(x.Path[i].Idx, y.Path[i].Idx))
		}
	}
	return r
}

func (e *Exec) strByte(s *StrV, i *Term) *Term {
	// byte at absolute backing position Off+i
	pos := e.ctx.BvBin(OpAdd, s.Off, i)
	if pos.IsConst() {
		return s.B[pos.val]
	}
	n := len(s.B)
	lo, hi := idxRange(pos, n)
	acc := s.B[hi]
	for k := hi - 1; k >= lo; k-- {
		acc = e.ctx.Ite(e.ctx.Eq(pos, e.ctx.BVConst(uint64(k), 64)), s.B[k], acc)
	}
	return acc
}

func (e *Exec) strEq(x, y *StrV) *Term {
	if cx, ok := concreteStr(x); ok {
		if cy, ok := concreteStr(y); ok {
			return e.ctx.Bool(cx == cy)
		}
	}
	r := e.ctx.Eq(x.Len, y.Len)
	if r.IsFalse() {
		return r
	}
	// compare up to the smaller backing window
	n := len(x.B)
	if len(y.B) < n {
		n = len(y.B)
	}
	if x.Len.IsConst() && int(x.Len.val) < n {
		n = int(x.Len.val)
	}
	if y.Len.IsConst() && int(y.Len.val) < n {
		n = int(y.Len.val)
	}
	for i := 0; i < n; i++ {
		it := e.ctx.BVConst(uint64(i), 64)
		inRange := e.ctx.BvBin(OpUlt, it, x.Len)
		r = e.ctx.And(r, e.ctx.Implies(inRange, e.ctx.Eq(e.strByte(x, it), e.strByte(y, it))))
	}
	return r
}

func (e *Exec) mapLookup(st *State, m *MapV, k Value, elemT types.Type) (Value, *Term) {
	zero := e.zero(elemT)
	if m.Obj == nil {
		return zero, e.ctx.False
	}
	md := e.mapData(st, m)
	if enc, ok := e.keyEnc(k); ok && md.nSym() == 0 {
		if i, ok := md.index[enc]; ok && i < len(md.Entries) {
			en := md.Entries[i]
			if en.Alive.IsTrue() {
				return copyAgg(en.V, 0), e.ctx.True
			}
			if en.Alive.IsFalse() {
				return zero, e.ctx.False
			}
			v, ok := e.mergeValue(en.Alive, en.V, zero, 0)
			if !ok {
				panic(unsupported("map lookup merge"))
			}
			return v, en.Alive
		}
		return zero, e.ctx.False
	}
	var val Value = zero
	found := e.ctx.False
	for i := 0; i < len(md.Entries); i++ { // oldest to newest; newer overrides
		en := md.Entries[i]
		hit := e.ctx.And(en.Alive, e.valueEq(en.K, k))
		if hit.IsFalse() {
			continue
		}
		v, ok := e.mergeValue(hit, en.V, val, 0)
		if !ok {
			panic(unsupported("map lookup with symbolic key over non-mergeable values"))
		}
		val = v
		found = e.ctx.Or(hit, found)
	}
	return copyAgg(val, 0), found
}

func (md *MapData) nSym() int {
	return len(md.Entries) - len(md.index) - md.dups()
}

func (md *MapData) dups() int { return 0 }

func (e *Exec) mapOwn(st *State, m *MapV) *MapData {
	md := e.mapData(st, m)
	if md.owner != st.epoch {
		n := &MapData{Entries: append([]MapEntry(nil), md.Entries...), index: make(map[string]int, len(md.index)+1), owner: st.epoch}
		for k, v := range md.index {
			n.index[k] = v
		}
		md = n
		st.heap[m.Obj] = md
	}
	return md
}

func (e *Exec) mapUpdate(st *State, m *MapV, k, v Value) {
	if m.Obj.frozen {
		e.frozenWrite(st, &PtrV{Obj: m.Obj})
	}
	md := e.mapOwn(st, m)
	v = copyAgg(v, st.epoch)
	if enc, ok := e.keyEnc(k); ok {
		if md.nSym() == 0 {
			if i, ok := md.index[enc]; ok {
				md.Entries[i] = MapEntry{K: k, V: v, Alive: e.ctx.True}
				return
			}
			md.index[enc] = len(md.Entries)
			md.Entries = append(md.Entries, MapEntry{K: k, V: v, Alive: e.ctx.True})
			return
		}
	}
	// symbolic key (or symbolic entries present): kill equal older entries, append
	for i := range md.Entries {
		eq := e.valueEq(md.Entries[i].K, k)
		md.Entries[i].Alive = e.ctx.And(md.Entries[i].Alive, e.ctx.Not(eq))
	}
	md.Entries = append(md.Entries, MapEntry{K: k, V: v, Alive: e.ctx.True})
	// keep nSym()>0 from now on: do not index this entry
	if enc, ok := e.keyEnc(k); ok {
		_ = enc
	}
}

func (e *Exec) mapDelete(st *State, m *MapV, k Value) {
	if m.Obj == nil {
		return
	}
	md := e.mapOwn(st, m)
	for i := range md.Entries {
		eq := e.valueEq(md.Entries[i].K, k)
		md.Entries[i].Alive = e.ctx.And(md.Entries[i].Alive, e.ctx.Not(eq))
	}
}

func (e *Exec) mapLen(st *State, m *MapV) *Term {
	if m.Obj == nil {
		return e.ctx.BVConst(0, 64)
	}
	md := e.mapData(st, m)
	n := e.ctx.BVConst(0, 64)
	one := e.ctx.BVConst(1, 64)
	for _, en := range md.Entries {
		n = e.ctx.BvBin(OpAdd, n, e.ctx.Ite(en.Alive, one, e.ctx.BVConst(0, 64)))
	}
	return n
}

package main

import (
	"bufio"
	"fmt"
	"io"
	"os"
	"os/exec"
	"strconv"
	"strings"
	"time"
)

var SlowLog int

// Solver is one long-lived SMT solver process fed over a pipe.
type Solver struct {
	ctx     *Ctx
	bin     string
	args    []string
	cmd     *exec.Cmd
	in      *bufio.Writer
	out     *bufio.Reader
	emitted map[int]bool
	ufDone  map[string]bool
	stack   []*Term
	log     io.Writer

	// statistics
	nSat, nUnsat, nUnknown, nErr int
	nSyntactic                   int
	wall                         time.Duration
	lastErr                      string
	slowest                      time.Duration
}

func NewSolver(ctx *Ctx, bin string, logPath string) (*Solver, error) {
	s := &Solver{ctx: ctx, bin: bin}
	if logPath != "" {
		f, err := os.Create(logPath)
		if err != nil {
			return nil, err
		}
		s.log = f
	}
	if err := s.start(); err != nil {
		return nil, err
	}
	return s, nil
}

func (s *Solver) start() error {
	switch {
	case strings.Contains(s.bin, "cvc5"):
		s.args = []string{"--incremental", "--produce-models", "--lang=smt2", "--fp-exp"}
	default:
		s.args = []string{"-in", "-smt2"}
	}
	s.cmd = exec.Command(s.bin, s.args...)
	stdin, err := s.cmd.StdinPipe()
	if err != nil {
		return err
	}
	stdout, err := s.cmd.StdoutPipe()
	if err != nil {
		return err
	}
	s.cmd.Stderr = nil
	if err := s.cmd.Start(); err != nil {
		return err
	}
	s.in = bufio.NewWriterSize(stdin, 1<<20)
	s.out = bufio.NewReaderSize(stdout, 1<<20)
	s.emitted = map[int]bool{}
	s.ufDone = map[string]bool{}
	s.stack = nil
	if strings.Contains(s.bin, "cvc5") {
		s.send("(set-logic ALL)")
	}
	s.send("(set-option :global-declarations true)")
	s.send("(set-option :produce-models true)")
	return nil
}

func (s *Solver) Close() {
	if s.cmd != nil {
		s.send("(exit)")
		s.in.Flush()
		done := make(chan struct{})
		go func() { s.cmd.Wait(); close(done) }()
		select {
		case <-done:
		case <-time.After(2 * time.Second):
			s.cmd.Process.Kill()
		}
		s.cmd = nil
	}
}

func (s *Solver) restart() {
	if s.cmd != nil {
		s.cmd.Process.Kill()
		s.cmd.Wait()
	}
	if err := s.start(); err != nil {
		panic(err)
	}
}

func (s *Solver) send(line string) {
	s.in.WriteString(line)
	s.in.WriteByte('\n')
	if s.log != nil {
		io.WriteString(s.log, line+"\n")
	}
}

// roundtrip flushes, then reads lines until the echo marker.
func (s *Solver) roundtrip() []string {
	s.send(`(echo "##done")`)
	if err := s.in.Flush(); err != nil {
		return []string{"(error \"pipe: " + err.Error() + "\")"}
	}
	var lines []string
	for {
		l, err := s.out.ReadString('\n')
		l = strings.TrimSpace(l)
		if l == "##done" || l == `"##done"` {
			break
		}
		if l != "" {
			lines = append(lines, l)
		}
		if err != nil {
			lines = append(lines, "(error \"solver died: "+err.Error()+"\")")
			break
		}
	}
	return lines
}

func (s *Solver) emit(t *Term) {
	switch t.op {
	case OpConst:
		return
	case OpVar:
		if !s.emitted[t.id] {
			s.emitted[t.id] = true
			s.send(fmt.Sprintf("(declare-const %s %s)", t.name, t.sort.SMT()))
		}
		return
	}
	if s.emitted[t.id] {
		return
	}
	s.emitted[t.id] = true
	if t.op == OpUF {
		if !s.ufDone[t.name] {
			s.ufDone[t.name] = true
			s.send(s.ctx.ufSigs[t.name])
		}
		if len(t.args) == 0 {
			return
		}
	}
	for _, a := range t.args {
		s.emit(a)
	}
	s.send(fmt.Sprintf("(define-fun t%d () %s %s)", t.id, t.sort.SMT(), t.body()))
}

// Check decides satisfiability of the conjunction of pc (and extra, if non-nil).
// Returns "sat", "unsat" or "unknown" (which includes every solver error).
func (s *Solver) Check(pc []*Term, extra *Term, timeoutMs int) string {
	t0 := time.Now()
	defer func() { s.wall += time.Since(t0) }()
	want := pc
	if extra != nil {
		want = append(append([]*Term{}, pc...), extra)
	}
	for _, t := range want {
		if t.IsFalse() {
			s.nUnsat++
			return "unsat"
		}
	}
	// align the assertion stack
	k := 0
	for k < len(s.stack) && k < len(want) && s.stack[k] == want[k] {
		k++
	}
	if n := len(s.stack) - k; n > 0 {
		s.send(fmt.Sprintf("(pop %d)", n))
		s.stack = s.stack[:k]
	}
	for _, t := range want[k:] {
		s.emit(t)
		s.send("(push 1)")
		s.send("(assert " + t.ref() + ")")
		s.stack = append(s.stack, t)
	}
	if strings.Contains(s.bin, "cvc5") {
		s.send(fmt.Sprintf("(set-option :tlimit-per %d)", timeoutMs))
	} else {
		s.send(fmt.Sprintf("(set-option :timeout %d)", timeoutMs))
	}
	s.send("(check-sat)")
	tq := time.Now()
	proc := s.cmd.Process
	watchdog := time.AfterFunc(time.Duration(timeoutMs)*time.Millisecond+3*time.Second, func() { proc.Kill() })
	lines := s.roundtrip()
	watchdog.Stop()
	if d := time.Since(tq); d > s.slowest {
		s.slowest = d
	}
	if SlowLog > 0 && time.Since(tq) > time.Duration(SlowLog)*time.Millisecond {
		fmt.Printf("  [slow query %.2fs, %d conjuncts, last=%s]\n", time.Since(tq).Seconds(), len(want), want[len(want)-1].ref())
	}
	res := "unknown"
	for _, l := range lines {
		switch {
		case l == "sat":
			res = "sat"
		case l == "unsat":
			res = "unsat"
		case l == "unknown":
			res = "unknown"
		case strings.HasPrefix(l, "(error") || l == "unsupported":
			s.nErr++
			s.lastErr = l
			res = "unknown"
			if strings.Contains(l, "solver died") || strings.Contains(l, "pipe:") {
				s.lastErr = "solver exceeded its time limit and was restarted"
				s.restart()
			}
			s.nUnknown++
			return res
		}
	}
	switch res {
	case "sat":
		s.nSat++
	case "unsat":
		s.nUnsat++
	default:
		s.nUnknown++
	}
	return res
}

// Values evaluates terms in the current model (must follow a "sat" answer).
func (s *Solver) Values(ts []*Term) ([]uint64, error) {
	res := make([]uint64, len(ts))
	var idx []int
	var sb strings.Builder
	sb.WriteString("(get-value (")
	for i, t := range ts {
		if t.IsConst() {
			res[i] = t.val
			continue
		}
		s.emit(t)
		if t.sort.K == KF32 || t.sort.K == KF64 {
			sb.WriteString("(fp.to_ieee_bv " + t.ref() + ") ")
		} else {
			sb.WriteString(t.ref() + " ")
		}
		idx = append(idx, i)
	}
	sb.WriteString("))")
	if len(idx) == 0 {
		return res, nil
	}
	s.send(sb.String())
	lines := s.roundtrip()
	txt := strings.Join(lines, " ")
	if strings.Contains(txt, "(error") {
		return nil, fmt.Errorf("get-value: %s", txt)
	}
	vals := parseValues(txt)
	if len(vals) != len(idx) {
		return nil, fmt.Errorf("get-value: expected %d values, got %d: %s", len(idx), len(vals), txt)
	}
	for j, i := range idx {
		res[i] = vals[j]
	}
	return res, nil
}

// parseValues parses "((name val) (name val) ...)" where val is #x.., #b.., true, false.
func parseValues(txt string) []uint64 {
	var out []uint64
	// tokenise on whitespace and parentheses; values are the tokens starting with #x/#b or true/false
	// that directly precede a ')' closing a pair. Names never start with '#'.
	depth := 0
	tok := ""
	var toks []string
	flush := func() {
		if tok != "" {
			toks = append(toks, tok)
			tok = ""
		}
	}
	for _, r := range txt {
		switch r {
		case '(':
			flush()
			depth++
			toks = append(toks, "(")
		case ')':
			flush()
			depth--
			toks = append(toks, ")")
		case ' ', '\t', '\n':
			flush()
		default:
			tok += string(r)
		}
	}
	flush()
	for i := 0; i+1 < len(toks); i++ {
		if toks[i+1] != ")" {
			continue
		}
		t := toks[i]
		switch {
		case strings.HasPrefix(t, "#x"):
			v, _ := strconv.ParseUint(t[2:], 16, 64)
			out = append(out, v)
		case strings.HasPrefix(t, "#b"):
			v, _ := strconv.ParseUint(t[2:], 2, 64)
			out = append(out, v)
		case t == "true":
			out = append(out, 1)
		case t == "false":
			out = append(out, 0)
		}
	}
	return out
}

package main

import (
	"encoding/json"
	"flag"
	"fmt"
	"os"
	"os/exec"
	"path/filepath"
	"regexp"
	"runtime"
	"runtime/debug"
	"sort"
	"strconv"
	"strings"
	"sync"
	"sync/atomic"
	"time"

	"golang.org/x/tools/go/ssa"
)

const (
	verifRoot = "/verif"
	repoMod   = "github.com/go-text/typesetting"
)

// repoRoot is /repo. Development only: VF_REPO points the check at a scratch worktree (used to run
// seeded changes without touching /repo); evidence and replays then go to VF_OUT (default <VF_REPO>.vfout)
// so that the registered outputs under /verif are not overwritten. Registered commands never set it.
var (
	repoRoot = "/repo"
	outRoot  = verifRoot
)

func init() {
	if v := os.Getenv("VF_REPO"); v != "" {
		repoRoot = v
		outRoot = v + ".vfout"
		if o := os.Getenv("VF_OUT"); o != "" {
			outRoot = o
		}
	}
}

type TierSpec struct {
	Split      []int  `json:"split,omitempty"`    // sizes of the leading vfChoice dimensions that are spread over workers
	Budget     int    `json:"budget_s,omitempty"` // wall budget per job
	Unwind     int    `json:"unwind,omitempty"`
	Bounds     string `json:"bounds"` // human-readable statement of the bound for this tier
	FeasMs     int    `json:"feas_ms,omitempty"`
	FinalMs    int    `json:"final_ms,omitempty"`
	Alloc      int    `json:"alloc,omitempty"`
	AllocLimit int    `json:"alloc_limit,omitempty"`
}

type HarnessSpec struct {
	ID               string              `json:"id"`
	Property         string              `json:"property"`
	Pkg              string              `json:"pkg"` // directory relative to the repo root
	Func             string              `json:"func"`
	Merge            *bool               `json:"merge,omitempty"`
	Policy           map[string]string   `json:"policy,omitempty"`
	Tiers            map[string]TierSpec `json:"tiers"`
	Known            []string            `json:"known,omitempty"`
	Covers           []string            `json:"covers,omitempty"` // cover labels that must be witnessed
	Stubs            []string            `json:"stubs,omitempty"`  // assumptions / stubs in force (text)
	Hooks            []string            `json:"hooks,omitempty"`  // functions rewritten by the hook injector
	Oracle           string              `json:"oracle,omitempty"`
	Gen              []GenSpec           `json:"gen,omitempty"`         // generated overlay files (native helper tools)
	OnlyLabels       string              `json:"only_labels,omitempty"` // regexp: violation labels that belong to this property
	PtrChoice        bool                `json:"ptr_choice,omitempty"`
	Summarise        []string            `json:"summarise,omitempty"`
	MergeMaxOutcomes int                 `json:"merge_max_outcomes,omitempty"`
}

type GenSpec struct {
	Tool  string   `json:"tool,omitempty"`  // binary under /verif/bin
	GoRun string   `json:"gorun,omitempty"` // or: directory under /verif/tools started with `go run .` (links against the current /repo)
	File  string   `json:"file"`            // file name inside the harness package
	Args  []string `json:"args,omitempty"`  // arguments passed to the tool
}

type Index struct {
	Harnesses []HarnessSpec `json:"harnesses"`
}

type Finding struct {
	Property    string `json:"property"`
	ID          string `json:"id"`
	Status      string `json:"status"` // "known" | "fixed"
	Harness     string `json:"harness"`
	Label       string `json:"label,omitempty"` // regexp on the violation label
	Description string `json:"description"`
	Commit      string `json:"commit,omitempty"`
}

type ReplayFile struct {
	Property string    `json:"property"`
	Harness  string    `json:"harness"`
	Pkg      string    `json:"pkg"`
	Func     string    `json:"func"`
	Thorough bool      `json:"thorough"`
	Expect   string    `json:"expect"`
	Site     string    `json:"site,omitempty"`
	Model    []DrawVal `json:"model"`
	Observe  []DrawVal `json:"observe,omitempty"`
	Hooks    []string  `json:"hooks,omitempty"`
}

type job struct {
	spec   *HarnessSpec
	prefix []int
	res    HarnessResult
}

func readJSON(path string, v interface{}) error {
	b, err := os.ReadFile(path)
	if err != nil {
		return err
	}
	return json.Unmarshal(b, v)
}

// buildOverlay collects, for every package directory that has harness files, the harness
// sources and the generated shim, as virtual files inside the repository tree.
func buildOverlay(pkgs []string, hooks []string) (map[string][]byte, error) {
	ov := map[string][]byte{}
	tmpl, err := os.ReadFile(filepath.Join(verifRoot, "harness", "vf_rt.go.tmpl"))
	if err != nil {
		return nil, err
	}
	for _, p := range pkgs {
		files, _ := filepath.Glob(filepath.Join(verifRoot, "harness", p, "*.go"))
		pkgName := ""
		for _, f := range files {
			if strings.HasSuffix(f, "_test.go") {
				continue
			}
			b, err := os.ReadFile(f)
			if err != nil {
				return nil, err
			}
			ov[filepath.Join(repoRoot, p, "zz_"+filepath.Base(f))] = b
			if pkgName == "" {
				if m := regexp.MustCompile(`(?m)^package (\w+)`).FindSubmatch(b); m != nil {
					pkgName = string(m[1])
				}
			}
		}
		if pkgName == "" {
			return nil, fmt.Errorf("no harness files for package %s", p)
		}
		ov[filepath.Join(repoRoot, p, "zz_vf_rt.go")] = []byte(strings.Replace(string(tmpl), "PKGNAME", pkgName, 1))
	}
	// package-level hook lists: /verif/harness/<pkg>/hooks.json
	for _, p := range pkgs {
		var ph []string
		if readJSON(filepath.Join(verifRoot, "harness", p, "hooks.json"), &ph) == nil {
			for _, h := range ph {
				dup := false
				for _, x := range hooks {
					if x == h {
						dup = true
					}
				}
				if !dup {
					hooks = append(hooks, h)
				}
			}
		}
	}
	if len(hooks) > 0 {
		hooked, err := injectHooks(hooks)
		if err != nil {
			return nil, err
		}
		for k, v := range hooked {
			ov[k] = v
		}
	}
	return ov, nil
}

func cmdCheck(args []string) {
	fs := flag.NewFlagSet("check", flag.ExitOnError)
	tier := fs.String("tier", "", "quick|thorough (default: $VERIF_TIER or quick)")
	only := fs.String("harness", "", "run only harnesses whose id matches this regexp")
	workers := fs.Int("j", 16, "parallel workers")
	solver := fs.String("solver", "z3-new", "primary solver")
	verbose := fs.Int("v", 0, "verbosity")
	noReplay := fs.Bool("noreplay", false, "skip native replays (debugging)")
	survey := fs.Bool("survey", false, "development: do not stop at the first violation, list every distinct failing (label, site)")
	replayPath := fs.String("replay", "", "re-run one stored replay file natively and exit")
	cases := fs.String("cases", "", "development: only run the jobs whose case prefix is listed, e.g. \"14;2,0\"")
	fs.Parse(args)
	if *replayPath != "" {
		os.Exit(cmdReplay(*replayPath))
	}
	if fs.NArg() < 1 {
		fmt.Println("usage: gosym check <property> [--tier quick|thorough]")
		os.Exit(2)
	}
	prop := fs.Arg(0)
	if *tier == "" {
		*tier = os.Getenv("VERIF_TIER")
	}
	if *tier != "thorough" {
		*tier = "quick"
	}
	seed := 0
	fmt.Sscan(os.Getenv("VERIF_SEED"), &seed)
	t0 := time.Now()

	var idx Index
	if err := readJSON(filepath.Join(verifRoot, "harness", "index.json"), &idx); err != nil {
		fmt.Println("INCONCLUSIVE property="+prop, "reason=index:", err)
		os.Exit(2)
	}
	var findings []Finding
	readJSON(filepath.Join(verifRoot, "known_findings.json"), &findings)

	var specs []*HarnessSpec
	pkgSet := map[string]bool{}
	for i := range idx.Harnesses {
		h := &idx.Harnesses[i]
		if h.Property != prop {
			continue
		}
		if _, ok := h.Tiers[*tier]; !ok {
			continue
		}
		if *only != "" && !regexp.MustCompile(*only).MatchString(h.ID) {
			continue
		}
		specs = append(specs, h)
		pkgSet[h.Pkg] = true
	}
	if len(specs) == 0 {
		fmt.Println("INCONCLUSIVE property="+prop, "reason=no harness registered for this property/tier")
		os.Exit(2)
	}
	var pkgDirs []string
	for p := range pkgSet {
		pkgDirs = append(pkgDirs, p)
	}
	sort.Strings(pkgDirs)

	work := filepath.Join(verifRoot, ".work", fmt.Sprintf("%s-%d", prop, os.Getpid()))
	os.MkdirAll(work, 0o755)
	defer os.RemoveAll(work)

	ev := newEvidence(prop, *tier, seed)
	fail := func(reason string) {
		fmt.Printf("INCONCLUSIVE property=%s reason=%s\n", prop, reason)
		ev.Inconclusive = append(ev.Inconclusive, reason)
		ev.write(time.Since(t0))
		os.RemoveAll(work)
		os.Exit(2)
	}

	hookSet := map[string]bool{}
	var hookList []string
	for _, h := range specs {
		for _, hk := range h.Hooks {
			if !hookSet[hk] {
				hookSet[hk] = true
				hookList = append(hookList, hk)
			}
		}
	}
	sort.Strings(hookList)
	overlay, err := buildOverlay(pkgDirs, hookList)
	if err != nil {
		fail("overlay: " + err.Error())
	}
	genDone := map[string]bool{}
	for hi := range idx.Harnesses {
		h := &idx.Harnesses[hi]
		if !pkgSet[h.Pkg] {
			continue
		}
		for _, g := range h.Gen {
			key := h.Pkg + "/" + g.File
			if genDone[key] {
				continue
			}
			genDone[key] = true
			out, err := runGen(g)
			if err != nil {
				fail("generator " + g.Tool + g.GoRun + ": " + err.Error())
			}
			overlay[filepath.Join(repoRoot, h.Pkg, "zz_"+g.File)] = out
		}
	}
	var patterns []string
	for _, p := range pkgDirs {
		patterns = append(patterns, "./"+p)
	}
	prog, _, err := loadProgram(repoRoot, overlay, "verif", patterns...)
	if err != nil {
		// the harness (or the repository) does not compile: cannot decide
		fail("load: " + strings.ReplaceAll(err.Error(), "\n", " | "))
	}
	loadS := time.Since(t0).Seconds()

	// expand jobs
	var jobs []*job
	for _, h := range specs {
		ts := h.Tiers[*tier]
		prefixes := [][]int{nil}
		for _, n := range ts.Split {
			var np [][]int
			for _, p := range prefixes {
				for k := 0; k < n; k++ {
					np = append(np, append(append([]int(nil), p...), k))
				}
			}
			prefixes = np
		}
		for _, p := range prefixes {
			if *cases != "" {
				key := strings.Trim(strings.ReplaceAll(fmt.Sprint(p), " ", ","), "[]")
				hit := false
				for _, c := range strings.Split(*cases, ";") {
					if c == key {
						hit = true
					}
				}
				if !hit {
					continue
				}
			}
			jobs = append(jobs, &job{spec: h, prefix: p})
		}
	}
	knownIDs := map[string]*Finding{}
	for i := range findings {
		f := &findings[i]
		if f.Property == prop && f.Status == "known" {
			knownIDs[f.ID] = f
		}
	}

	// wall budget of the whole check: cases not started before it expires are reported as NOT EXPLORED
	// (reduced coverage, stated in the output and in the evidence), cases running at that time get a
	// short grace period. VERIF_WALL_S overrides the default (quick 1500 s, thorough 900 s).
	wallS := 1500
	if *tier == "thorough" {
		wallS = 900
	}
	if v, err := strconv.Atoi(os.Getenv("VERIF_WALL_S")); err == nil && v > 0 {
		wallS = v
	}
	wallDeadline := t0.Add(time.Duration(wallS) * time.Second)
	// memory guard: the collector works harder above the soft limit, and no new case is started while the
	// heap is above the hard mark (such cases are reported as not explored, like the wall budget)
	debug.SetMemoryLimit(36 << 30)
	memHigh := func() bool {
		var ms runtime.MemStats
		runtime.ReadMemStats(&ms)
		return ms.HeapAlloc > 40<<30
	}
	var stopFlag atomic.Bool
	var wg sync.WaitGroup
	ch := make(chan *job)
	var mu sync.Mutex
	done := 0
	for w := 0; w < *workers; w++ {
		wg.Add(1)
		go func() {
			defer wg.Done()
			for j := range ch {
				h := j.spec
				ts := h.Tiers[*tier]
				cfg := defaultConfig()
				cfg.Verbose = *verbose
				cfg.Thorough = *tier == "thorough"
				if h.Merge != nil {
					cfg.MergeDefault = *h.Merge
				}
				for k, v := range h.Policy {
					cfg.Policy[k] = v
				}
				if ts.Unwind > 0 {
					cfg.Unwind = ts.Unwind
				}
				if ts.FeasMs > 0 {
					cfg.FeasMs = ts.FeasMs
				}
				if ts.FinalMs > 0 {
					cfg.FinalMs = ts.FinalMs
				}
				if ts.Alloc > 0 {
					cfg.AllocBound = ts.Alloc
				}
				if ts.AllocLimit > 0 {
					cfg.AllocLimit = ts.AllocLimit
				}
				budget := ts.Budget
				if budget == 0 {
					budget = 600
				}
				cfg.Deadline = time.Now().Add(time.Duration(budget) * time.Second)
				if grace := wallDeadline.Add(120 * time.Second); cfg.Deadline.After(grace) {
					cfg.Deadline = grace
				}
				cfg.Stop = &stopFlag
				cfg.PtrChoice = h.PtrChoice
				cfg.SplitDims = ts.Split
				cfg.LazyFeas = false
				if h.MergeMaxOutcomes > 0 {
					cfg.MergeMaxOutcomes = h.MergeMaxOutcomes
				}
				cfg.Summarise = map[string]bool{}
				for _, f := range h.Summarise {
					cfg.Summarise[f] = true
				}
				if h.OnlyLabels != "" {
					cfg.OnlyLabel = regexp.MustCompile(h.OnlyLabels)
				}
				if *survey {
					cfg.Stop = nil
				}
				for id := range knownIDs {
					cfg.Known[id] = true
				}
				pkg := prog.ImportedPackage(repoMod + "/" + h.Pkg)
				var fn *ssa.Function
				if pkg != nil {
					fn = pkg.Func(h.Func)
				}
				if fn == nil {
					j.res = HarnessResult{Harness: h.Func, Verdict: "INCONCLUSIVE", Events: []Event{{"load", "harness function " + h.Func + " not found in " + h.Pkg}}}
				} else {
					if stopFlag.Load() {
						j.res = HarnessResult{Harness: h.Func, Verdict: "SKIPPED"}
					} else if time.Now().After(wallDeadline) {
						j.res = HarnessResult{Harness: h.Func, Verdict: "NOT-EXPLORED", Events: []Event{{"budget", "case not started: wall budget of the check exhausted"}}}
					} else if memHigh() {
						j.res = HarnessResult{Harness: h.Func, Verdict: "NOT-EXPLORED", Events: []Event{{"budget", "case not started: memory budget of the check exhausted"}}}
					} else {
						j.res = runHarness(prog, fn, cfg, j.prefix, *solver, "")
					}
					if j.res.Verdict == "VIOLATION" && !*survey {
						stopFlag.Store(true)
					}
				}
				mu.Lock()
				done++
				if *verbose > 0 {
					first := ""
					for _, p := range j.res.Paths {
						if p.Kind == "violation" || p.Kind == "known" || p.Kind == "inconclusive" {
							first = " :: " + p.Kind + " " + p.Label + " @ " + p.Site
							break
						}
					}
					if first == "" && len(j.res.Events) > 0 {
						first = " :: event " + j.res.Events[0].Kind + " " + j.res.Events[0].Msg
					}
					fmt.Printf("  [%d/%d] %s %v: %s paths=%d wall=%.1fs%s\n", done, len(jobs), h.ID, j.prefix, j.res.Verdict, j.res.Stats.Paths, j.res.WallS, first)
				}
				mu.Unlock()
			}
		}()
	}
	for _, j := range jobs {
		ch <- j
	}
	close(ch)
	wg.Wait()

	if *survey {
		seen := map[string]int{}
		for _, j := range jobs {
			for _, p := range j.res.Paths {
				if p.Kind == "violation" || p.Kind == "known" || p.Kind == "inconclusive" {
					seen[fmt.Sprintf("%s %v | %s | %s | %s", j.spec.ID, j.prefix, p.Kind, p.Label, p.Site)]++
				}
			}
			for _, e := range j.res.Events {
				seen[fmt.Sprintf("%s %v | event | %s | %s", j.spec.ID, j.prefix, e.Kind, e.Msg)]++
			}
		}
		var keys []string
		for k := range seen {
			keys = append(keys, k)
		}
		sort.Strings(keys)
		for _, k := range keys {
			fmt.Printf("SURVEY %s (x%d)\n", k, seen[k])
		}
	}
	// ---- aggregate ----
	exit := 0
	type hagg struct {
		spec    *HarnessSpec
		verdict string
		jobs    []*job
	}
	aggs := map[string]*hagg{}
	var order []string
	for _, j := range jobs {
		a := aggs[j.spec.ID]
		if a == nil {
			a = &hagg{spec: j.spec, verdict: "HELD"}
			aggs[j.spec.ID] = a
			order = append(order, j.spec.ID)
		}
		a.jobs = append(a.jobs, j)
	}
	replayDir := filepath.Join(outRoot, "replays", prop)
	os.MkdirAll(replayDir, 0o755)
	knownSeen := map[string]string{} // finding id -> replay status
	var violLines []string
	var pendingReplays []*ReplayFile
	var pendingPaths []string
	var okSamples []*ReplayFile
	for _, id := range order {
		a := aggs[id]
		covers := map[string]int{}
		for _, j := range a.jobs {
			ev.addJob(j)
			for k, v := range j.res.Covers {
				covers[k] += v
			}
			for _, s := range j.res.OKSamples {
				rf := &ReplayFile{Property: prop, Harness: id, Pkg: a.spec.Pkg, Func: a.spec.Func, Thorough: *tier == "thorough", Expect: "ok", Model: s.Model, Observe: s.Observe, Hooks: hookList}
				okSamples = append(okSamples, rf)
			}
			for _, ev2 := range j.res.Events {
				if ev2.Kind == "budget" {
					ev.Reduced = append(ev.Reduced, fmt.Sprintf("%s %v: %s", id, j.prefix, ev2.Msg))
					continue
				}
				ev.Inconclusive = append(ev.Inconclusive, fmt.Sprintf("%s %v: %s: %s", id, j.prefix, ev2.Kind, ev2.Msg))
			}
			for _, p := range j.res.Paths {
				switch p.Kind {
				case "inconclusive":
					ev.Inconclusive = append(ev.Inconclusive, fmt.Sprintf("%s %v: %s", id, j.prefix, p.Label))
				case "violation", "known":
					rf := &ReplayFile{Property: prop, Harness: id, Pkg: a.spec.Pkg, Func: a.spec.Func, Thorough: *tier == "thorough", Expect: p.Label, Site: p.Site, Model: p.Model, Hooks: hookList}
					fid := ""
					if p.Kind == "known" {
						fid = p.Known
						if f := knownIDs[fid]; f != nil && f.Label != "" && !regexp.MustCompile(f.Label).MatchString(p.Label) {
							fid = "" // a different failure inside the known class is still a violation
						}
					}
					if fid != "" {
						if _, seen := knownSeen[fid]; seen {
							continue
						}
						knownSeen[fid] = "pending"
						rf.Harness = id + "#" + fid
					}
					pendingReplays = append(pendingReplays, rf)
				}
			}
		}
		reduced := false
		for _, j := range a.jobs {
			for _, ev2 := range j.res.Events {
				if ev2.Kind == "budget" {
					reduced = true
				}
			}
		}
		for _, c := range a.spec.Covers {
			if covers[c] == 0 {
				if reduced {
					// the cases that would reach it may be among those not explored in time: stated, not a verdict
					ev.Reduced = append(ev.Reduced, fmt.Sprintf("%s: vacuity witness %q not reached by the explored cases", id, c))
					continue
				}
				ev.Inconclusive = append(ev.Inconclusive, fmt.Sprintf("%s: vacuity witness %q never reached", id, c))
			}
		}
	}

	// ---- native replays ----
	// at most one violation per harness is replayed and reported (plus one per known finding)
	seenH := map[string]bool{}
	var toRun []*ReplayFile
	for _, rf := range pendingReplays {
		if seenH[rf.Harness] {
			continue
		}
		seenH[rf.Harness] = true
		toRun = append(toRun, rf)
	}
	for i, rf := range toRun {
		name := strings.NewReplacer("#", "_", "/", "_").Replace(rf.Harness)
		p := filepath.Join(replayDir, fmt.Sprintf("%s-%d.json", name, i))
		b, _ := json.MarshalIndent(rf, "", " ")
		os.WriteFile(p, b, 0o644)
		pendingPaths = append(pendingPaths, p)
	}
	if !*noReplay {
		// counter-examples
		if len(toRun) > 0 {
			results := nativeReplay(work, overlay, toRun, pendingPaths)
			for i, rf := range toRun {
				got := results[i]
				ok := replayMatches(rf.Expect, got)
				ev.Replays = append(ev.Replays, map[string]string{"harness": rf.Harness, "expect": rf.Expect, "native": got, "path": pendingPaths[i]})
				if k := strings.Index(rf.Harness, "#"); k >= 0 {
					fid := rf.Harness[k+1:]
					if ok {
						knownSeen[fid] = "reproduces"
						ev.ReplaysAgreed++
					} else {
						knownSeen[fid] = "model did not reproduce natively: " + got
						ev.Inconclusive = append(ev.Inconclusive, "known finding "+fid+": counter-example did not reproduce natively ("+got+")")
					}
					continue
				}
				if ok {
					ev.ReplaysAgreed++
					ev.Violations++
					violLines = append(violLines, fmt.Sprintf("VIOLATION property=%s replay=%s", prop, pendingPaths[i]))
					fmt.Printf("  %s: %s at %s (native: %s)\n", rf.Harness, rf.Expect, rf.Site, got)
				} else {
					ev.Inconclusive = append(ev.Inconclusive, fmt.Sprintf("%s: counter-example for %q did not reproduce natively (native: %s) - encoder or stub bug", rf.Harness, rf.Expect, got))
				}
			}
		}
		// translator validation: sampled completed paths must run natively without any assertion failing
		if len(okSamples) > 0 {
			var paths []string
			for i, rf := range okSamples {
				p := filepath.Join(work, fmt.Sprintf("ok-%d.json", i))
				b, _ := json.Marshal(rf)
				os.WriteFile(p, b, 0o644)
				paths = append(paths, p)
			}
			results := nativeReplay(work, overlay, okSamples, paths)
			for i, rf := range okSamples {
				if strings.HasPrefix(results[i], "ok") && observeMatches(rf, results[i]) {
					ev.ReplaysAgreed++
					ev.OKValidated++
				} else {
					b, _ := json.Marshal(rf.Model)
					ev.Inconclusive = append(ev.Inconclusive, fmt.Sprintf("%s: translator validation: a path the engine completed did not complete natively (%s) model=%s", rf.Harness, results[i], string(b)))
				}
			}
		}
	} else {
		for i, rf := range toRun {
			if !strings.Contains(rf.Harness, "#") {
				violLines = append(violLines, fmt.Sprintf("VIOLATION property=%s replay=%s (not replayed)", prop, pendingPaths[i]))
			}
		}
	}

	for _, f := range findings {
		if f.Property != prop || f.Status != "known" {
			continue
		}
		st := knownSeen[f.ID]
		if st == "" {
			st = "not reproduced in this run (class empty within this tier's bound)"
		}
		fmt.Printf("KNOWN-FINDING: property=%s %s: %s [%s]\n", prop, f.ID, f.Description, st)
		ev.Known = append(ev.Known, f.ID+": "+st)
	}
	ev.LoadS = loadS
	for _, l := range violLines {
		fmt.Println(l)
	}
	if len(violLines) > 0 {
		exit = 1
	} else if len(ev.Inconclusive) > 0 {
		for _, r := range ev.Inconclusive {
			fmt.Printf("INCONCLUSIVE property=%s reason=%s\n", prop, r)
		}
		exit = 2
	}
	if len(ev.Reduced) > 0 {
		// reduced coverage is not a verdict on the property: it is stated, and the exit code reflects only what was explored
		fmt.Printf("REDUCED property=%s %d case(s) not (fully) explored within the time budget, e.g. %s\n", prop, len(ev.Reduced), ev.Reduced[0])
	}
	ev.write(time.Since(t0))
	fmt.Printf("%s tier=%s: %d harness(es), %d jobs, %d paths, %d solver queries (%d sat / %d unsat / %d unknown), solver %.1fs, wall %.1fs -> %s\n",
		prop, *tier, len(order), len(jobs), ev.Paths, ev.Sat+ev.Unsat+ev.Unknown, ev.Sat, ev.Unsat, ev.Unknown, ev.SolverS, time.Since(t0).Seconds(),
		map[int]string{0: "HELD", 1: "VIOLATION", 2: "INCONCLUSIVE"}[exit])
	os.RemoveAll(work)
	os.Exit(exit)
}

func replayMatches(expect, got string) bool {
	if strings.HasPrefix(expect, "frozen: ") {
		// a store into the shared (frozen) region has no native symptom; the counter-example counts
		// when the same input runs natively along a complete path (no assumption or replay mismatch),
		// i.e. the real code does execute the operation on which the engine saw the store
		return strings.HasPrefix(got, "ok")
	}
	if strings.HasPrefix(expect, "assert: ") {
		return got == expect
	}
	if strings.HasPrefix(expect, "runtime: ") || strings.HasPrefix(expect, "explicit: ") || strings.HasPrefix(expect, "alloc: ") {
		msg := expect[strings.Index(expect, ": ")+2:]
		if strings.HasPrefix(expect, "alloc: ") && strings.HasPrefix(got, "ok alloc=") {
			// an allocation obligation has no panic when the runtime can serve the request: the counter-example
			// counts when the native run on this input did allocate at least the limit (in bytes)
			var limit, nat uint64
			fmt.Sscanf(msg, "allocation of more than %d elements", &limit)
			fmt.Sscanf(got, "ok alloc=%d", &nat)
			return limit > 0 && nat >= limit
		}
		if !strings.HasPrefix(got, "panic: ") {
			return false
		}
		// the engine's message is a fragment of the runtime's
		key := msg
		if i := strings.Index(key, " ("); i > 0 {
			key = key[:i]
		}
		if strings.Contains(got, key) || strings.HasPrefix(expect, "explicit: ") {
			return true
		}
		// the engine stopped at an implicit-panic / allocation obligation and the native run dies with
		// another run-time panic on the same input: the real code panics, which is what is reported
		return strings.HasPrefix(got, "panic: runtime error")
	}
	return false
}

func observeMatches(rf *ReplayFile, got string) bool {
	if len(rf.Observe) == 0 {
		return true
	}
	i := strings.Index(got, " observe=")
	if i < 0 {
		return false
	}
	var nat []DrawVal
	if err := json.Unmarshal([]byte(got[i+9:]), &nat); err != nil {
		return false
	}
	if len(nat) != len(rf.Observe) {
		return false
	}
	for k := range nat {
		if nat[k].Name != rf.Observe[k].Name || nat[k].Val != rf.Observe[k].Val {
			return false
		}
	}
	return true
}

// nativeReplay runs the given replay files against the real build with `go test -overlay`.
// All files of one package are run in one test binary. Returns one result string per file.
func nativeReplay(work string, overlay map[string][]byte, rfs []*ReplayFile, paths []string) []string {
	results := make([]string, len(rfs))
	byPkg := map[string][]int{}
	for i, rf := range rfs {
		byPkg[rf.Pkg] = append(byPkg[rf.Pkg], i)
	}
	// materialise overlay files
	ovDir := filepath.Join(work, "ov")
	os.MkdirAll(ovDir, 0o755)
	repl := map[string]string{}
	n := 0
	for virt, content := range overlay {
		real := filepath.Join(ovDir, fmt.Sprintf("f%d_%s", n, filepath.Base(virt)))
		n++
		os.WriteFile(real, content, 0o644)
		repl[virt] = real
	}
	for pkg, idxs := range byPkg {
		// generated test driver: dispatch table over every harness function in the package overlay
		funcs := map[string]bool{}
		pkgName := ""
		for virt, content := range overlay {
			if filepath.Dir(virt) != filepath.Join(repoRoot, pkg) {
				continue
			}
			if m := regexp.MustCompile(`(?m)^package (\w+)`).FindSubmatch(content); m != nil && pkgName == "" {
				pkgName = string(m[1])
			}
			for _, m := range regexp.MustCompile(`(?m)^func (VfH_\w+)\(\)`).FindAllSubmatch(content, -1) {
				funcs[string(m[1])] = true
			}
		}
		var sb strings.Builder
		sb.WriteString("//go:build verif\n\npackage " + pkgName + "\n\nimport (\n\t\"fmt\"\n\t\"os\"\n\t\"runtime\"\n\t\"strings\"\n\t\"testing\"\n\tvfjson2 \"encoding/json\"\n)\n\n")
		sb.WriteString("var vfHarnessTable = map[string]func(){\n")
		var names []string
		for f := range funcs {
			names = append(names, f)
		}
		sort.Strings(names)
		for _, f := range names {
			fmt.Fprintf(&sb, "\t%q: %s,\n", f, f)
		}
		sb.WriteString("}\n\n")
		sb.WriteString(`func vfRunOne(path string) (res string) {
	defer func() {
		r := recover()
		switch x := r.(type) {
		case nil:
			b, _ := vfjson2.Marshal(vfObserved)
			var ms runtime.MemStats
			runtime.ReadMemStats(&ms)
			res = fmt.Sprintf("ok alloc=%d observe=%s", ms.TotalAlloc-vfAllocBefore, string(b))
		case vfAssertFailed:
			res = "assert: " + x.Label
		case vfAssumeFailed:
			res = "assume-failed"
		case vfReplayExhausted:
			res = "replay-mismatch " + x.Name
		default:
			res = fmt.Sprintf("panic: %v", r)
		}
	}()
	b, err := os.ReadFile(path)
	if err != nil {
		return "error: " + err.Error()
	}
	var f struct {
		Func     string ` + "`json:\"func\"`" + `
		Thorough bool   ` + "`json:\"thorough\"`" + `
	}
	if err := vfjson2.Unmarshal(b, &f); err != nil {
		return "error: " + err.Error()
	}
	h := vfHarnessTable[f.Func]
	if h == nil {
		return "error: no harness " + f.Func
	}
	os.Setenv("VF_REPLAY", path)
	vfReset()
	vfIsThorough = f.Thorough
	var ms runtime.MemStats
	runtime.ReadMemStats(&ms)
	vfAllocBefore = ms.TotalAlloc
	h()
	return ""
}

var vfAllocBefore uint64

func TestVfReplay(t *testing.T) {
	for _, p := range strings.Split(os.Getenv("VF_REPLAYS"), ":") {
		if p == "" {
			continue
		}
		done := make(chan string, 1)
		go func() { done <- vfRunOne(p) }()
		fmt.Printf("VF-RESULT %s %s\n", p, strings.ReplaceAll(<-done, "\n", " "))
	}
}
`)
		testVirt := filepath.Join(repoRoot, pkg, "zz_vf_replay_test.go")
		testReal := filepath.Join(ovDir, "replay_"+strings.ReplaceAll(pkg, "/", "_")+"_test.go")
		os.WriteFile(testReal, []byte(sb.String()), 0o644)
		r2 := map[string]string{}
		for k, v := range repl {
			r2[k] = v
		}
		r2[testVirt] = testReal
		ovJSON := filepath.Join(work, "overlay_"+strings.ReplaceAll(pkg, "/", "_")+".json")
		b, _ := json.Marshal(map[string]interface{}{"Replace": r2})
		os.WriteFile(ovJSON, b, 0o644)
		var ps []string
		for _, i := range idxs {
			ps = append(ps, paths[i])
		}
		cmd := exec.Command("go", "test", "-tags", "verif", "-vet=off", "-count=1", "-v", "-timeout", "300s", "-run", "^TestVfReplay$", "-overlay", ovJSON, "./"+pkg)
		cmd.Dir = repoRoot
		cmd.Env = append(os.Environ(), "GOFLAGS=-mod=mod", "GOPROXY=off", "GOSUMDB=off", "GOTOOLCHAIN=local", "VF_REPLAYS="+strings.Join(ps, ":"))
		out, err := cmd.CombinedOutput()
		txt := string(out)
		found := map[string]string{}
		for _, l := range strings.Split(txt, "\n") {
			if strings.HasPrefix(l, "VF-RESULT ") {
				rest := strings.TrimPrefix(l, "VF-RESULT ")
				if k := strings.Index(rest, " "); k > 0 {
					found[rest[:k]] = rest[k+1:]
				}
			}
		}
		for _, i := range idxs {
			if r, ok := found[paths[i]]; ok {
				results[i] = r
			} else {
				tail := txt
				if len(tail) > 600 {
					tail = tail[len(tail)-600:]
				}
				// the test binary died (fatal error, timeout, stack overflow, os.Exit): that is a crash of the real code
				results[i] = "panic: test binary aborted: " + strings.ReplaceAll(tail, "\n", " | ")
				if err == nil {
					results[i] = "error: no result line"
				}
			}
		}
	}
	return results
}

func cmdReplay(path string) int {
	var rf ReplayFile
	if err := readJSON(path, &rf); err != nil {
		fmt.Println("cannot read replay file:", err)
		return 2
	}
	overlay, err := buildOverlay([]string{rf.Pkg}, rf.Hooks)
	if err != nil {
		fmt.Println("overlay:", err)
		return 2
	}
	work := filepath.Join(verifRoot, ".work", fmt.Sprintf("replay-%d", os.Getpid()))
	os.MkdirAll(work, 0o755)
	defer os.RemoveAll(work)
	abs, _ := filepath.Abs(path)
	res := nativeReplay(work, overlay, []*ReplayFile{&rf}, []string{abs})
	fmt.Printf("replay %s\n  harness: %s (%s.%s)\n  expected: %s\n  native:   %s\n", path, rf.Harness, rf.Pkg, rf.Func, rf.Expect, res[0])
	if replayMatches(rf.Expect, res[0]) {
		fmt.Printf("VIOLATION property=%s replay=%s\n", rf.Property, path)
		return 1
	}
	return 0
}

func runGen(g GenSpec) ([]byte, error) {
	if g.GoRun != "" {
		cmd := exec.Command("go", append([]string{"run", "."}, g.Args...)...)
		cmd.Dir = filepath.Join(verifRoot, "tools", g.GoRun)
		cmd.Env = append(os.Environ(), "GOFLAGS=-mod=mod", "GOPROXY=off", "GOSUMDB=off", "GOTOOLCHAIN=local")
		return cmd.Output()
	}
	return exec.Command(filepath.Join(verifRoot, "bin", g.Tool), g.Args...).Output()
}

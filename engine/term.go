package main

// Hash-consed SMT term DAG with aggressive constant folding, so that concrete
// execution inside the interpreter never touches the solver.

import (
	"fmt"
	"math"
	"math/bits"
	"strings"
)

type Kind uint8

const (
	KBool Kind = iota
	KBV
	KF32
	KF64
)

type Sort struct {
	K Kind
	W int
}

var (
	SBool = Sort{KBool, 0}
	SF32  = Sort{KF32, 32}
	SF64  = Sort{KF64, 64}
)

func BV(w int) Sort { return Sort{KBV, w} }

func (s Sort) SMT() string {
	switch s.K {
	case KBool:
		return "Bool"
	case KBV:
		return fmt.Sprintf("(_ BitVec %d)", s.W)
	case KF32:
		return "(_ FloatingPoint 8 24)"
	case KF64:
		return "(_ FloatingPoint 11 53)"
	}
	panic("sort")
}

type Op uint8

const (
	OpConst Op = iota
	OpVar
	OpNot
	OpAnd
	OpOr
	OpIte
	OpEq
	OpAdd
	OpSub
	OpMul
	OpUDiv
	OpSDiv
	OpURem
	OpSRem
	OpBAnd
	OpBOr
	OpBXor
	OpBNot
	OpNeg
	OpShl
	OpLshr
	OpAshr
	OpUlt
	OpUle
	OpSlt
	OpSle
	OpExtract
	OpZext
	OpSext
	OpConcat
	OpFAdd
	OpFSub
	OpFMul
	OpFDiv
	OpFNeg
	OpFLt
	OpFLe
	OpFEq
	OpFIsNaN
	OpFConv   // fp -> fp of other width
	OpSToF    // signed bv -> fp
	OpUToF    // unsigned bv -> fp
	OpFToS    // fp -> signed bv (RTZ)
	OpFToU    // fp -> unsigned bv (RTZ)
	OpBitsToF // reinterpret bv as fp
	OpFToBits // reinterpret fp as bv
	OpFRound  // round to integral; a = 0 floor (RTN), 1 ceil (RTP), 2 trunc (RTZ), 3 round half away (RNA)
	OpFAbs
	OpFSqrt
	OpUF
)

var opNames = map[Op]string{
	OpNot: "not", OpAnd: "and", OpOr: "or", OpIte: "ite", OpEq: "=",
	OpAdd: "bvadd", OpSub: "bvsub", OpMul: "bvmul", OpUDiv: "bvudiv", OpSDiv: "bvsdiv",
	OpURem: "bvurem", OpSRem: "bvsrem", OpBAnd: "bvand", OpBOr: "bvor", OpBXor: "bvxor",
	OpBNot: "bvnot", OpNeg: "bvneg", OpShl: "bvshl", OpLshr: "bvlshr", OpAshr: "bvashr",
	OpUlt: "bvult", OpUle: "bvule", OpSlt: "bvslt", OpSle: "bvsle", OpConcat: "concat",
	OpFNeg: "fp.neg", OpFLt: "fp.lt", OpFLe: "fp.leq", OpFEq: "fp.eq", OpFIsNaN: "fp.isNaN",
	OpFToBits: "fp.to_ieee_bv",
}

type Term struct {
	id   int
	op   Op
	sort Sort
	args []*Term
	val  uint64 // constants: value (bool: 0/1; fp: IEEE bits)
	a, b int    // extract hi/lo; ext amount
	name string // vars, UFs
}

func (t *Term) IsConst() bool { return t.op == OpConst }
func (t *Term) IsTrue() bool  { return t.op == OpConst && t.sort.K == KBool && t.val == 1 }
func (t *Term) IsFalse() bool { return t.op == OpConst && t.sort.K == KBool && t.val == 0 }

type termKey struct {
	op         Op
	sort       Sort
	a0, a1, a2 int
	val        uint64
	a, b       int
	name       string
}

// Ctx owns all terms of one worker.
type Ctx struct {
	tab    map[termKey]*Term
	nextID int
	nvars  int
	True   *Term
	False  *Term
	ufSigs map[string]string // name -> SMT declaration
	ufList []string
}

func NewCtx() *Ctx {
	c := &Ctx{tab: map[termKey]*Term{}, ufSigs: map[string]string{}}
	c.True = c.Bool(true)
	c.False = c.Bool(false)
	return c
}

func (c *Ctx) mk(op Op, s Sort, val uint64, a, b int, name string, args ...*Term) *Term {
	k := termKey{op: op, sort: s, val: val, a: a, b: b, name: name, a0: -1, a1: -1, a2: -1}
	if len(args) > 3 {
		var sb strings.Builder
		sb.WriteString(name)
		for _, x := range args {
			fmt.Fprintf(&sb, ",%d", x.id)
		}
		k.name = sb.String()
	} else {
		if len(args) > 0 {
			k.a0 = args[0].id
		}
		if len(args) > 1 {
			k.a1 = args[1].id
		}
		if len(args) > 2 {
			k.a2 = args[2].id
		}
	}
	if t, ok := c.tab[k]; ok {
		return t
	}
	t := &Term{id: c.nextID, op: op, sort: s, args: args, val: val, a: a, b: b, name: name}
	c.nextID++
	c.tab[k] = t
	return t
}

func mask(w int) uint64 {
	if w >= 64 {
		return ^uint64(0)
	}
	return (uint64(1) << uint(w)) - 1
}

func sext64(v uint64, w int) int64 {
	if w >= 64 {
		return int64(v)
	}
	sh := uint(64 - w)
	return int64(v<<sh) >> sh
}

func (c *Ctx) Bool(b bool) *Term {
	if b {
		return c.mk(OpConst, SBool, 1, 0, 0, "")
	}
	return c.mk(OpConst, SBool, 0, 0, 0, "")
}
func (c *Ctx) BVConst(v uint64, w int) *Term { return c.mk(OpConst, BV(w), v&mask(w), 0, 0, "") }
func (c *Ctx) F32Const(f float32) *Term {
	return c.mk(OpConst, SF32, uint64(math.Float32bits(f)), 0, 0, "")
}
func (c *Ctx) F64Const(f float64) *Term { return c.mk(OpConst, SF64, math.Float64bits(f), 0, 0, "") }

func (c *Ctx) Var(name string, s Sort) *Term {
	c.nvars++
	return c.mk(OpVar, s, 0, 0, 0, fmt.Sprintf("%s!%d", sanitize(name), c.nvars))
}

func sanitize(s string) string {
	var sb strings.Builder
	for _, r := range s {
		if r >= 'a' && r <= 'z' || r >= 'A' && r <= 'Z' || r >= '0' && r <= '9' || r == '_' || r == '.' {
			sb.WriteRune(r)
		} else {
			sb.WriteByte('_')
		}
	}
	return sb.String()
}

// ---- boolean ----

func (c *Ctx) Not(x *Term) *Term {
	if x.IsConst() {
		return c.Bool(x.val == 0)
	}
	if x.op == OpNot {
		return x.args[0]
	}
	return c.mk(OpNot, SBool, 0, 0, 0, "", x)
}

func (c *Ctx) And(x, y *Term) *Term {
	if x.IsFalse() || y.IsFalse() {
		return c.False
	}
	if x.IsTrue() {
		return y
	}
	if y.IsTrue() {
		return x
	}
	if x == y {
		return x
	}
	if (x.op == OpNot && x.args[0] == y) || (y.op == OpNot && y.args[0] == x) {
		return c.False
	}
	return c.mk(OpAnd, SBool, 0, 0, 0, "", x, y)
}

func (c *Ctx) Or(x, y *Term) *Term {
	if x.IsTrue() || y.IsTrue() {
		return c.True
	}
	if x.IsFalse() {
		return y
	}
	if y.IsFalse() {
		return x
	}
	if x == y {
		return x
	}
	if (x.op == OpNot && x.args[0] == y) || (y.op == OpNot && y.args[0] == x) {
		return c.True
	}
	return c.mk(OpOr, SBool, 0, 0, 0, "", x, y)
}

func (c *Ctx) AndAll(xs []*Term) *Term {
	r := c.True
	for _, x := range xs {
		r = c.And(r, x)
	}
	return r
}

func (c *Ctx) Implies(x, y *Term) *Term { return c.Or(c.Not(x), y) }

func (c *Ctx) Ite(g, x, y *Term) *Term {
	if g.IsTrue() {
		return x
	}
	if g.IsFalse() {
		return y
	}
	if x == y {
		return x
	}
	if x.sort != y.sort {
		panic(fmt.Sprintf("ite sort mismatch %v %v", x.sort, y.sort))
	}
	if x.sort.K == KBool {
		if x.IsTrue() && y.IsFalse() {
			return g
		}
		if x.IsFalse() && y.IsTrue() {
			return c.Not(g)
		}
		if x.IsTrue() {
			return c.Or(g, y)
		}
		if x.IsFalse() {
			return c.And(c.Not(g), y)
		}
		if y.IsTrue() {
			return c.Or(c.Not(g), x)
		}
		if y.IsFalse() {
			return c.And(g, x)
		}
	}
	if g.op == OpNot {
		return c.Ite(g.args[0], y, x)
	}
	// ite(g, a, ite(g, b, c)) = ite(g, a, c)
	if y.op == OpIte && y.args[0] == g {
		return c.Ite(g, x, y.args[2])
	}
	if x.op == OpIte && x.args[0] == g {
		return c.Ite(g, x.args[1], y)
	}
	return c.mk(OpIte, x.sort, 0, 0, 0, "", g, x, y)
}

func (c *Ctx) Eq(x, y *Term) *Term {
	if x == y {
		if x.sort.K == KF32 || x.sort.K == KF64 {
			// structural equality on FP sort (not IEEE); still reflexive
			return c.True
		}
		return c.True
	}
	if x.sort != y.sort {
		panic(fmt.Sprintf("eq sort mismatch %v %v", x.sort, y.sort))
	}
	if x.IsConst() && y.IsConst() {
		return c.Bool(x.val == y.val)
	}
	if x.sort.K == KBool {
		if x.IsConst() {
			if x.val == 1 {
				return y
			}
			return c.Not(y)
		}
		if y.IsConst() {
			if y.val == 1 {
				return x
			}
			return c.Not(x)
		}
	}
	// eq(ite(g,c1,c2), c3) with constants: push inside
	if y.IsConst() && x.op == OpIte && (x.args[1].IsConst() || x.args[2].IsConst()) {
		return c.Ite(x.args[0], c.Eq(x.args[1], y), c.Eq(x.args[2], y))
	}
	if x.IsConst() && y.op == OpIte && (y.args[1].IsConst() || y.args[2].IsConst()) {
		return c.Ite(y.args[0], c.Eq(x, y.args[1]), c.Eq(x, y.args[2]))
	}
	if x.id > y.id {
		x, y = y, x
	}
	return c.mk(OpEq, SBool, 0, 0, 0, "", x, y)
}

// ---- bit-vectors ----

func (c *Ctx) foldBin(op Op, x, y *Term) (*Term, bool) {
	if !(x.IsConst() && y.IsConst()) {
		return nil, false
	}
	w := x.sort.W
	a, b := x.val, y.val
	sa, sb := sext64(a, w), sext64(b, w)
	switch op {
	case OpAdd:
		return c.BVConst(a+b, w), true
	case OpSub:
		return c.BVConst(a-b, w), true
	case OpMul:
		return c.BVConst(a*b, w), true
	case OpUDiv:
		if b == 0 {
			return c.BVConst(mask(w), w), true
		}
		return c.BVConst(a/b, w), true
	case OpURem:
		if b == 0 {
			return c.BVConst(a, w), true
		}
		return c.BVConst(a%b, w), true
	case OpSDiv:
		if b == 0 {
			if sa < 0 {
				return c.BVConst(1, w), true
			}
			return c.BVConst(mask(w), w), true
		}
		if sb == -1 {
			return c.BVConst(uint64(-sa), w), true
		}
		return c.BVConst(uint64(sa/sb), w), true
	case OpSRem:
		if b == 0 {
			return c.BVConst(a, w), true
		}
		if sb == -1 {
			return c.BVConst(0, w), true
		}
		return c.BVConst(uint64(sa%sb), w), true
	case OpBAnd:
		return c.BVConst(a&b, w), true
	case OpBOr:
		return c.BVConst(a|b, w), true
	case OpBXor:
		return c.BVConst(a^b, w), true
	case OpShl:
		if b >= uint64(w) {
			return c.BVConst(0, w), true
		}
		return c.BVConst(a<<b, w), true
	case OpLshr:
		if b >= uint64(w) {
			return c.BVConst(0, w), true
		}
		return c.BVConst(a>>b, w), true
	case OpAshr:
		if b >= uint64(w) {
			if sa < 0 {
				return c.BVConst(mask(w), w), true
			}
			return c.BVConst(0, w), true
		}
		return c.BVConst(uint64(sa>>b), w), true
	case OpUlt:
		return c.Bool(a < b), true
	case OpUle:
		return c.Bool(a <= b), true
	case OpSlt:
		return c.Bool(sa < sb), true
	case OpSle:
		return c.Bool(sa <= sb), true
	}
	return nil, false
}

func (c *Ctx) BvBin(op Op, x, y *Term) *Term {
	if x.sort != y.sort || x.sort.K != KBV {
		panic(fmt.Sprintf("bvbin %v sort mismatch %v %v", opNames[op], x.sort, y.sort))
	}
	if r, ok := c.foldBin(op, x, y); ok {
		return r
	}
	w := x.sort.W
	rs := x.sort
	switch op {
	case OpUlt, OpUle, OpSlt, OpSle:
		rs = SBool
	}
	isZero := func(t *Term) bool { return t.IsConst() && t.val == 0 }
	isOnes := func(t *Term) bool { return t.IsConst() && t.val == mask(w) }
	switch op {
	case OpAdd:
		if isZero(x) {
			return y
		}
		if isZero(y) {
			return x
		}
		// (a + c1) + c2 = a + (c1+c2)
		if y.IsConst() && x.op == OpAdd && x.args[1].IsConst() {
			return c.BvBin(OpAdd, x.args[0], c.BVConst(x.args[1].val+y.val, w))
		}
		if x.IsConst() {
			x, y = y, x
		}
	case OpSub:
		if isZero(y) {
			return x
		}
		if x == y {
			return c.BVConst(0, w)
		}
		if y.IsConst() {
			return c.BvBin(OpAdd, x, c.BVConst(-y.val, w))
		}
	case OpMul:
		if isZero(x) || isZero(y) {
			return c.BVConst(0, w)
		}
		if x.IsConst() && x.val == 1 {
			return y
		}
		if y.IsConst() && y.val == 1 {
			return x
		}
		if x.IsConst() {
			x, y = y, x
		}
	case OpBAnd:
		if isZero(x) || isZero(y) {
			return c.BVConst(0, w)
		}
		if isOnes(x) {
			return y
		}
		if isOnes(y) {
			return x
		}
		if x == y {
			return x
		}
	case OpBOr:
		if isZero(x) {
			return y
		}
		if isZero(y) {
			return x
		}
		if x == y {
			return x
		}
		if isOnes(x) || isOnes(y) {
			return c.BVConst(mask(w), w)
		}
	case OpBXor:
		if isZero(x) {
			return y
		}
		if isZero(y) {
			return x
		}
		if x == y {
			return c.BVConst(0, w)
		}
	case OpShl, OpLshr, OpAshr:
		if isZero(y) {
			return x
		}
		if isZero(x) {
			return x
		}
	case OpUlt:
		if x == y || isZero(y) {
			return c.False
		}
	case OpUle:
		if x == y || isZero(x) {
			return c.True
		}
	case OpSlt:
		if x == y {
			return c.False
		}
	case OpSle:
		if x == y {
			return c.True
		}
	case OpUDiv, OpSDiv:
		if y.IsConst() && y.val == 1 {
			return x
		}
		if op == OpUDiv && y.IsConst() && y.val&(y.val-1) == 0 && y.val != 0 {
			return c.BvBin(OpLshr, x, c.BVConst(uint64(popcount(y.val-1)), w))
		}
	case OpURem, OpSRem:
		if y.IsConst() && y.val == 1 {
			return c.BVConst(0, w)
		}
		if op == OpURem && y.IsConst() && y.val&(y.val-1) == 0 && y.val != 0 {
			return c.BvBin(OpBAnd, x, c.BVConst(y.val-1, w))
		}
	}
	// push comparisons / arithmetic through ite with constant leaves (keeps table lookups small)
	if (x.op == OpIte && y.IsConst() && iteConstLeaves(x, 6)) || (y.op == OpIte && x.IsConst() && iteConstLeaves(y, 6)) {
		if x.op == OpIte {
			return c.Ite(x.args[0], c.BvBin(op, x.args[1], y), c.BvBin(op, x.args[2], y))
		}
		return c.Ite(y.args[0], c.BvBin(op, x, y.args[1]), c.BvBin(op, x, y.args[2]))
	}
	return c.mk(op, rs, 0, 0, 0, "", x, y)
}

// iteConstLeaves reports whether t is an ite tree of depth<=d whose leaves are all constants.
func iteConstLeaves(t *Term, d int) bool {
	if t.IsConst() {
		return true
	}
	if t.op != OpIte || d == 0 {
		return false
	}
	return iteConstLeaves(t.args[1], d-1) && iteConstLeaves(t.args[2], d-1)
}

func (c *Ctx) BvNot(x *Term) *Term {
	if x.IsConst() {
		return c.BVConst(^x.val, x.sort.W)
	}
	if x.op == OpBNot {
		return x.args[0]
	}
	return c.mk(OpBNot, x.sort, 0, 0, 0, "", x)
}

func (c *Ctx) BvNeg(x *Term) *Term {
	if x.IsConst() {
		return c.BVConst(-x.val, x.sort.W)
	}
	return c.mk(OpNeg, x.sort, 0, 0, 0, "", x)
}

func (c *Ctx) Extract(x *Term, hi, lo int) *Term {
	w := hi - lo + 1
	if lo == 0 && w == x.sort.W {
		return x
	}
	if x.IsConst() {
		return c.BVConst(x.val>>uint(lo), w)
	}
	if (x.op == OpZext || x.op == OpSext) && hi < x.args[0].sort.W {
		return c.Extract(x.args[0], hi, lo)
	}
	if x.op == OpZext && lo >= x.args[0].sort.W {
		return c.BVConst(0, w)
	}
	if x.op == OpExtract {
		return c.Extract(x.args[0], hi+x.b, lo+x.b)
	}
	if x.op == OpIte && iteConstLeaves(x, 6) {
		return c.Ite(x.args[0], c.Extract(x.args[1], hi, lo), c.Extract(x.args[2], hi, lo))
	}
	if x.op == OpConcat {
		lw := x.args[1].sort.W
		if hi < lw {
			return c.Extract(x.args[1], hi, lo)
		}
		if lo >= lw {
			return c.Extract(x.args[0], hi-lw, lo-lw)
		}
	}
	return c.mk(OpExtract, BV(w), 0, hi, lo, "", x)
}

func (c *Ctx) Zext(x *Term, to int) *Term {
	if to == x.sort.W {
		return x
	}
	if to < x.sort.W {
		return c.Extract(x, to-1, 0)
	}
	if x.IsConst() {
		return c.BVConst(x.val, to)
	}
	if x.op == OpZext {
		return c.Zext(x.args[0], to)
	}
	if x.op == OpIte && iteConstLeaves(x, 6) {
		return c.Ite(x.args[0], c.Zext(x.args[1], to), c.Zext(x.args[2], to))
	}
	return c.mk(OpZext, BV(to), 0, to-x.sort.W, 0, "", x)
}

func (c *Ctx) Sext(x *Term, to int) *Term {
	if to == x.sort.W {
		return x
	}
	if to < x.sort.W {
		return c.Extract(x, to-1, 0)
	}
	if x.IsConst() {
		return c.BVConst(uint64(sext64(x.val, x.sort.W)), to)
	}
	if x.op == OpZext {
		return c.Zext(x.args[0], to)
	}
	if x.op == OpIte && iteConstLeaves(x, 6) {
		return c.Ite(x.args[0], c.Sext(x.args[1], to), c.Sext(x.args[2], to))
	}
	return c.mk(OpSext, BV(to), 0, to-x.sort.W, 0, "", x)
}

func (c *Ctx) Concat(hi, lo *Term) *Term {
	w := hi.sort.W + lo.sort.W
	if hi.IsConst() && lo.IsConst() && w <= 64 {
		return c.BVConst(hi.val<<uint(lo.sort.W)|lo.val, w)
	}
	return c.mk(OpConcat, BV(w), 0, 0, 0, "", hi, lo)
}

// ---- floating point ----

func fbits(t *Term) float64 {
	if t.sort.K == KF32 {
		return float64(math.Float32frombits(uint32(t.val)))
	}
	return math.Float64frombits(t.val)
}

func (c *Ctx) fconst(s Sort, f float64) *Term {
	if s.K == KF32 {
		return c.F32Const(float32(f))
	}
	return c.F64Const(f)
}

func (c *Ctx) FBin(op Op, x, y *Term) *Term {
	if x.sort != y.sort {
		panic("fbin sort mismatch")
	}
	if x.IsConst() && y.IsConst() {
		if x.sort.K == KF32 {
			a, b := math.Float32frombits(uint32(x.val)), math.Float32frombits(uint32(y.val))
			switch op {
			case OpFAdd:
				return c.F32Const(a + b)
			case OpFSub:
				return c.F32Const(a - b)
			case OpFMul:
				return c.F32Const(a * b)
			case OpFDiv:
				return c.F32Const(a / b)
			case OpFLt:
				return c.Bool(a < b)
			case OpFLe:
				return c.Bool(a <= b)
			case OpFEq:
				return c.Bool(a == b)
			}
		} else {
			a, b := math.Float64frombits(x.val), math.Float64frombits(y.val)
			switch op {
			case OpFAdd:
				return c.F64Const(a + b)
			case OpFSub:
				return c.F64Const(a - b)
			case OpFMul:
				return c.F64Const(a * b)
			case OpFDiv:
				return c.F64Const(a / b)
			case OpFLt:
				return c.Bool(a < b)
			case OpFLe:
				return c.Bool(a <= b)
			case OpFEq:
				return c.Bool(a == b)
			}
		}
	}
	rs := x.sort
	switch op {
	case OpFLt, OpFLe, OpFEq:
		rs = SBool
	}
	// distribute over ite trees whose leaves are constants: keeps grid-valued floats propositional
	nx, ny := constLeaves(x, 512), constLeaves(y, 512)
	if nx > 0 && ny > 0 && nx*ny <= 16384 {
		if x.op == OpIte {
			return c.Ite(x.args[0], c.FBin(op, x.args[1], y), c.FBin(op, x.args[2], y))
		}
		if y.op == OpIte {
			return c.Ite(y.args[0], c.FBin(op, x, y.args[1]), c.FBin(op, x, y.args[2]))
		}
	}
	return c.mk(op, rs, 0, 0, 0, "", x, y)
}

// constLeaves returns the number of leaves of an ite tree whose leaves are all constants
// (1 for a constant), or -1 when some leaf is not constant or there are more than limit leaves.
func constLeaves(t *Term, limit int) int {
	if t.IsConst() {
		return 1
	}
	if t.op != OpIte || limit < 2 {
		return -1
	}
	a := constLeaves(t.args[1], limit-1)
	if a < 0 {
		return -1
	}
	b := constLeaves(t.args[2], limit-a)
	if b < 0 {
		return -1
	}
	return a + b
}

// distUnary pushes a unary operation through an ite tree whose leaves are all constants
// (the operation then folds at the leaves). ok is false when x is not such a tree.
func (c *Ctx) distUnary(x *Term, f func(*Term) *Term) (*Term, bool) {
	if x.op != OpIte || constLeaves(x, 512) < 0 {
		return nil, false
	}
	var rec func(t *Term) *Term
	rec = func(t *Term) *Term {
		if t.op == OpIte {
			return c.Ite(t.args[0], rec(t.args[1]), rec(t.args[2]))
		}
		return f(t)
	}
	return rec(x), true
}

func (c *Ctx) FNeg(x *Term) *Term {
	if r, ok := c.distUnary(x, c.FNeg); ok {
		return r
	}
	if x.IsConst() {
		if x.sort.K == KF32 {
			return c.mk(OpConst, SF32, x.val^(1<<31), 0, 0, "")
		}
		return c.mk(OpConst, SF64, x.val^(1<<63), 0, 0, "")
	}
	return c.mk(OpFNeg, x.sort, 0, 0, 0, "", x)
}

func (c *Ctx) FIsNaN(x *Term) *Term {
	if x.IsConst() {
		return c.Bool(math.IsNaN(fbits(x)))
	}
	if r, ok := c.distUnary(x, c.FIsNaN); ok {
		return r
	}
	return c.mk(OpFIsNaN, SBool, 0, 0, 0, "", x)
}

func (c *Ctx) FConv(x *Term, to Sort) *Term {
	if x.sort == to {
		return x
	}
	if x.IsConst() {
		return c.fconst(to, fbits(x))
	}
	if r, ok := c.distUnary(x, func(t *Term) *Term { return c.FConv(t, to) }); ok {
		return r
	}
	return c.mk(OpFConv, to, 0, 0, 0, "", x)
}

func (c *Ctx) IntToF(x *Term, signed bool, to Sort) *Term {
	if x.IsConst() {
		if signed {
			v := sext64(x.val, x.sort.W)
			if to.K == KF32 {
				return c.F32Const(float32(v))
			}
			return c.F64Const(float64(v))
		}
		if to.K == KF32 {
			return c.F32Const(float32(x.val))
		}
		return c.F64Const(float64(x.val))
	}
	if r, ok := c.distUnary(x, func(t *Term) *Term { return c.IntToF(t, signed, to) }); ok {
		return r
	}
	if signed {
		return c.mk(OpSToF, to, 0, 0, 0, "", x)
	}
	return c.mk(OpUToF, to, 0, 0, 0, "", x)
}

// FToInt converts with truncation; out-of-range results follow amd64 for constants
// (0x8000... "integer indefinite"), and are unspecified (solver's choice) symbolically.
func (c *Ctx) FToInt(x *Term, signed bool, w int) *Term {
	if x.IsConst() {
		f := fbits(x)
		if signed {
			var v int64
			if math.IsNaN(f) || f >= 9.223372036854775807e18 || f < -9.223372036854775808e18 {
				v = math.MinInt64
			} else {
				v = int64(f)
			}
			return c.BVConst(uint64(v), w)
		}
		var v uint64
		if math.IsNaN(f) || f < 0 || f >= 1.8446744073709552e19 {
			v = 1 << 63
		} else {
			v = uint64(f)
		}
		return c.BVConst(v, w)
	}
	if r, ok := c.distUnary(x, func(t *Term) *Term { return c.FToInt(t, signed, w) }); ok {
		return r
	}
	if signed {
		return c.mk(OpFToS, BV(w), 0, 0, 0, "", x)
	}
	return c.mk(OpFToU, BV(w), 0, 0, 0, "", x)
}

func (c *Ctx) BitsToF(x *Term, to Sort) *Term {
	if x.IsConst() {
		return c.mk(OpConst, to, x.val, 0, 0, "")
	}
	if x.op == OpFToBits {
		return x.args[0]
	}
	return c.mk(OpBitsToF, to, 0, 0, 0, "", x)
}

func (c *Ctx) FToBits(x *Term) *Term {
	if x.IsConst() {
		return c.BVConst(x.val, x.sort.W)
	}
	if x.op == OpBitsToF {
		return x.args[0]
	}
	return c.mk(OpFToBits, BV(x.sort.W), 0, 0, 0, "", x)
}

// UF applies an uninterpreted function.
func (c *Ctx) UF(name string, rs Sort, args ...*Term) *Term {
	name = "uf_" + sanitize(name)
	var sb strings.Builder
	fmt.Fprintf(&sb, "(declare-fun %s (", name)
	for i, a := range args {
		if i > 0 {
			sb.WriteByte(' ')
		}
		sb.WriteString(a.sort.SMT())
	}
	fmt.Fprintf(&sb, ") %s)", rs.SMT())
	if old, ok := c.ufSigs[name]; ok {
		if old != sb.String() {
			panic("UF " + name + " used with two signatures: " + old + " vs " + sb.String())
		}
	} else {
		c.ufSigs[name] = sb.String()
		c.ufList = append(c.ufList, name)
	}
	if len(args) == 0 {
		// nullary UF == named constant
		return c.mk(OpUF, rs, 0, 0, 0, name)
	}
	return c.mk(OpUF, rs, 0, 0, 0, name, args...)
}

// ---- printing ----

func (t *Term) ref() string {
	switch t.op {
	case OpConst:
		switch t.sort.K {
		case KBool:
			if t.val == 1 {
				return "true"
			}
			return "false"
		case KBV:
			if t.sort.W%4 == 0 {
				return fmt.Sprintf("#x%0*x", t.sort.W/4, t.val)
			}
			return fmt.Sprintf("#b%0*b", t.sort.W, t.val)
		case KF32:
			v := uint32(t.val)
			return fmt.Sprintf("(fp #b%b #b%08b #b%023b)", v>>31, (v>>23)&0xff, v&0x7fffff)
		case KF64:
			v := t.val
			return fmt.Sprintf("(fp #b%b #b%011b #b%052b)", v>>63, (v>>52)&0x7ff, v&((1<<52)-1))
		}
	case OpVar:
		return t.name
	}
	if t.op == OpUF && len(t.args) == 0 {
		return t.name
	}
	return fmt.Sprintf("t%d", t.id)
}

func fpTo(s Sort) string {
	if s.K == KF32 {
		return "(_ to_fp 8 24)"
	}
	return "(_ to_fp 11 53)"
}

// body prints the defining expression of a non-leaf term, referring to args by name.
func (t *Term) body() string {
	a := func(i int) string { return t.args[i].ref() }
	switch t.op {
	case OpExtract:
		return fmt.Sprintf("((_ extract %d %d) %s)", t.a, t.b, a(0))
	case OpZext:
		return fmt.Sprintf("((_ zero_extend %d) %s)", t.a, a(0))
	case OpSext:
		return fmt.Sprintf("((_ sign_extend %d) %s)", t.a, a(0))
	case OpFAdd:
		return fmt.Sprintf("(fp.add RNE %s %s)", a(0), a(1))
	case OpFSub:
		return fmt.Sprintf("(fp.sub RNE %s %s)", a(0), a(1))
	case OpFMul:
		return fmt.Sprintf("(fp.mul RNE %s %s)", a(0), a(1))
	case OpFDiv:
		return fmt.Sprintf("(fp.div RNE %s %s)", a(0), a(1))
	case OpFConv:
		return fmt.Sprintf("(%s RNE %s)", fpTo(t.sort), a(0))
	case OpSToF:
		return fmt.Sprintf("(%s RNE %s)", fpTo(t.sort), a(0))
	case OpUToF:
		if t.sort.K == KF32 {
			return fmt.Sprintf("((_ to_fp_unsigned 8 24) RNE %s)", a(0))
		}
		return fmt.Sprintf("((_ to_fp_unsigned 11 53) RNE %s)", a(0))
	case OpFToS:
		return fmt.Sprintf("((_ fp.to_sbv %d) RTZ %s)", t.sort.W, a(0))
	case OpFToU:
		return fmt.Sprintf("((_ fp.to_ubv %d) RTZ %s)", t.sort.W, a(0))
	case OpBitsToF:
		return fmt.Sprintf("(%s %s)", fpTo(t.sort), a(0))
	case OpFRound:
		return fmt.Sprintf("(fp.roundToIntegral %s %s)", [...]string{"RTN", "RTP", "RTZ", "RNA"}[t.a], a(0))
	case OpFAbs:
		return fmt.Sprintf("(fp.abs %s)", a(0))
	case OpFSqrt:
		return fmt.Sprintf("(fp.sqrt RNE %s)", a(0))
	case OpUF:
		var sb strings.Builder
		sb.WriteString("(" + t.name)
		for i := range t.args {
			sb.WriteString(" " + a(i))
		}
		sb.WriteString(")")
		return sb.String()
	}
	name, ok := opNames[t.op]
	if !ok {
		panic(fmt.Sprintf("no printer for op %d", t.op))
	}
	var sb strings.Builder
	sb.WriteString("(" + name)
	for i := range t.args {
		sb.WriteString(" " + a(i))
	}
	sb.WriteString(")")
	return sb.String()
}

// Eval evaluates a term under a model (variables -> value); used for translator validation.
func (t *Term) String() string {
	if t.op == OpConst || t.op == OpVar {
		return t.ref()
	}
	return t.ref() + "=" + t.body()
}

func popcount(x uint64) int { return bits.OnesCount64(x) }

// FUnary builds floor/ceil/trunc/round (mode 0..3), abs (4) and sqrt (5) on a symbolic float.
func (c *Ctx) FUnary(mode int, x *Term) *Term {
	if x.IsConst() {
		f := fbits(x)
		switch mode {
		case 0:
			f = math.Floor(f)
		case 1:
			f = math.Ceil(f)
		case 2:
			f = math.Trunc(f)
		case 3:
			f = math.Round(f)
		case 4:
			f = math.Abs(f)
		case 5:
			f = math.Sqrt(f)
		}
		return c.fconst(x.sort, f)
	}
	if r, ok := c.distUnary(x, func(t *Term) *Term { return c.FUnary(mode, t) }); ok {
		return r
	}
	switch mode {
	case 4:
		return c.mk(OpFAbs, x.sort, 0, 0, 0, "", x)
	case 5:
		return c.mk(OpFSqrt, x.sort, 0, 0, 0, "", x)
	}
	return c.mk(OpFRound, x.sort, 0, mode, 0, "", x)
}

package main

import (
	"fmt"
	"go/types"

	"golang.org/x/tools/go/ssa"
)

// Value is one of: *Term, *StructV, *ArrayV, *PtrV, *SliceV, *StrV, *MapV, *IfaceV, *FuncV.
type Value interface{}

type StructV struct {
	F     []Value
	owner int
}

type ArrayV struct {
	E     []Value
	owner int
}

type PathElem struct {
	Field int   // >=0: struct field; -1: array index
	Idx   *Term // BV64 when Field == -1
}

type Object struct {
	id     int
	typ    types.Type
	init   Value // value in the base layer (after package init), may be nil until first store
	name   string
	frozen bool
	isMap  bool
}

type PtrV struct {
	Obj  *Object // nil => nil pointer
	Path []PathElem
}

type SliceV struct {
	Base          *PtrV // pointer to the backing *array*; nil => nil slice
	Off, Len, Cap *Term // BV64
}

// StrV is an immutable string: bytes B[Off : Off+Len].
type StrV struct {
	B        []*Term // BV8 each
	Off, Len *Term   // BV64
}

type MapEntry struct {
	K, V  Value
	Alive *Term
}

// MapData is the heap value of a map object.
type MapData struct {
	Entries []MapEntry
	index   map[string]int // concrete-key fast path: key encoding -> latest entry index
	owner   int
}

type MapV struct {
	Obj *Object // nil => nil map
}

type IfaceV struct {
	T types.Type // nil => nil interface
	V Value
}

type FuncV struct {
	Fn      *ssa.Function
	Bind    []Value
	Builtin *ssa.Builtin
}

// PtrChoice is a guarded choice between concrete pointers (the guards are mutually exclusive and
// exhaustive on the paths that hold the value). It only arises from merges when cfg.PtrChoice is on.
type PtrAlt struct {
	G *Term
	P *PtrV
}

type PtrChoice struct{ Alts []PtrAlt }

var nilPtr = &PtrV{}

func samePtr(a, b *PtrV) bool {
	if isNilPtr(a) || isNilPtr(b) {
		return isNilPtr(a) && isNilPtr(b)
	}
	if a.Obj != b.Obj || len(a.Path) != len(b.Path) {
		return false
	}
	for i := range a.Path {
		if a.Path[i].Field != b.Path[i].Field || a.Path[i].Idx != b.Path[i].Idx {
			return false
		}
	}
	return true
}

// ptrAlts views any pointer-like value as a list of guarded alternatives.
func (e *Exec) ptrAlts(v Value) ([]PtrAlt, bool) {
	switch x := v.(type) {
	case *PtrV:
		return []PtrAlt{{e.ctx.True, x}}, true
	case *PtrChoice:
		return x.Alts, true
	}
	return nil, false
}

// mkChoice normalises alternatives (same targets joined, false guards dropped).
func (e *Exec) mkChoice(alts []PtrAlt) Value {
	var out []PtrAlt
	for _, a := range alts {
		if a.G.IsFalse() {
			continue
		}
		done := false
		for i := range out {
			if samePtr(out[i].P, a.P) {
				out[i].G = e.ctx.Or(out[i].G, a.G)
				done = true
				break
			}
		}
		if !done {
			out = append(out, a)
		}
	}
	if len(out) == 1 {
		return out[0].P
	}
	if len(out) == 0 {
		return nilPtr
	}
	return &PtrChoice{Alts: out}
}

func (e *Exec) mergePtrLike(g *Term, a, b Value) (Value, bool) {
	aa, ok1 := e.ptrAlts(a)
	bb, ok2 := e.ptrAlts(b)
	if !ok1 || !ok2 {
		return nil, false
	}
	if pa, ok := a.(*PtrV); ok {
		if pb, ok := b.(*PtrV); ok {
			if r, ok := e.mergePtr(g, pa, pb); ok {
				return r, true
			}
		}
	}
	if !e.cfg.PtrChoice {
		return nil, false
	}
	ng := e.ctx.Not(g)
	var alts []PtrAlt
	for _, x := range aa {
		alts = append(alts, PtrAlt{e.ctx.And(g, x.G), x.P})
	}
	for _, x := range bb {
		alts = append(alts, PtrAlt{e.ctx.And(ng, x.G), x.P})
	}
	if len(alts) > 96 {
		return nil, false
	}
	return e.mkChoice(alts), true
}

func isNilPtr(p *PtrV) bool { return p == nil || p.Obj == nil }

// ---- zero values ----

func (e *Exec) zero(t types.Type) Value {
	switch u := t.Underlying().(type) {
	case *types.Basic:
		switch {
		case u.Info()&types.IsBoolean != 0:
			return e.ctx.False
		case u.Info()&types.IsInteger != 0:
			return e.ctx.BVConst(0, intWidth(u))
		case u.Kind() == types.Float32:
			return e.ctx.F32Const(0)
		case u.Kind() == types.Float64 || u.Kind() == types.UntypedFloat:
			return e.ctx.F64Const(0)
		case u.Info()&types.IsString != 0:
			return e.emptyStr()
		case u.Kind() == types.UnsafePointer:
			return nilPtr
		case u.Kind() == types.UntypedNil:
			return nilPtr
		case u.Kind() == types.Invalid:
			return e.ctx.False // blank range variables
		}
		panic(unsupported("zero value of basic type " + u.String()))
	case *types.Struct:
		s := &StructV{F: make([]Value, u.NumFields())}
		for i := range s.F {
			s.F[i] = e.zero(u.Field(i).Type())
		}
		return s
	case *types.Array:
		n := int(u.Len())
		a := &ArrayV{E: make([]Value, n)}
		if n > 0 {
			z := e.zero(u.Elem())
			a.E[0] = z
			for i := 1; i < n; i++ {
				if _, scalar := z.(*Term); scalar {
					a.E[i] = z
				} else {
					a.E[i] = e.zero(u.Elem())
				}
			}
		}
		return a
	case *types.Pointer:
		return nilPtr
	case *types.Slice:
		return e.nilSlice()
	case *types.Map:
		return &MapV{}
	case *types.Interface:
		return &IfaceV{}
	case *types.Signature:
		return &FuncV{}
	case *types.Tuple:
		s := &StructV{F: make([]Value, u.Len())}
		for i := range s.F {
			s.F[i] = e.zero(u.At(i).Type())
		}
		return s
	case *types.Chan:
		return nilPtr
	}
	panic(unsupported("zero value of " + t.String()))
}

func (e *Exec) nilSlice() *SliceV {
	z := e.ctx.BVConst(0, 64)
	return &SliceV{Base: nil, Off: z, Len: z, Cap: z}
}

func (e *Exec) emptyStr() *StrV {
	z := e.ctx.BVConst(0, 64)
	return &StrV{Off: z, Len: z}
}

func (e *Exec) strConst(s string) *StrV {
	if v, ok := e.strCache[s]; ok {
		return v
	}
	b := make([]*Term, len(s))
	for i := 0; i < len(s); i++ {
		b[i] = e.ctx.BVConst(uint64(s[i]), 8)
	}
	v := &StrV{B: b, Off: e.ctx.BVConst(0, 64), Len: e.ctx.BVConst(uint64(len(s)), 64)}
	e.strCache[s] = v
	return v
}

// concreteStr returns the Go string when the value is fully concrete.
func concreteStr(s *StrV) (string, bool) {
	if !s.Off.IsConst() || !s.Len.IsConst() {
		return "", false
	}
	off, n := int(s.Off.val), int(s.Len.val)
	buf := make([]byte, n)
	for i := 0; i < n; i++ {
		t := s.B[off+i]
		if !t.IsConst() {
			return "", false
		}
		buf[i] = byte(t.val)
	}
	return string(buf), true
}

func intWidth(b *types.Basic) int {
	switch b.Kind() {
	case types.Int8, types.Uint8:
		return 8
	case types.Int16, types.Uint16:
		return 16
	case types.Int32, types.Uint32:
		return 32
	case types.Int64, types.Uint64, types.Int, types.Uint, types.Uintptr, types.UntypedInt:
		return 64
	case types.UntypedRune:
		return 32
	}
	panic("intWidth " + b.String())
}

func isSigned(t types.Type) bool {
	b, ok := t.Underlying().(*types.Basic)
	return ok && b.Info()&types.IsInteger != 0 && b.Info()&types.IsUnsigned == 0
}

func isFloat(t types.Type) bool {
	b, ok := t.Underlying().(*types.Basic)
	return ok && b.Info()&types.IsFloat != 0
}

func isInteger(t types.Type) bool {
	b, ok := t.Underlying().(*types.Basic)
	return ok && b.Info()&types.IsInteger != 0
}

func isString(t types.Type) bool {
	b, ok := t.Underlying().(*types.Basic)
	return ok && b.Info()&types.IsString != 0
}

func isBool(t types.Type) bool {
	b, ok := t.Underlying().(*types.Basic)
	return ok && b.Info()&types.IsBoolean != 0
}

func sortOf(t types.Type) Sort {
	b := t.Underlying().(*types.Basic)
	switch {
	case b.Info()&types.IsBoolean != 0:
		return SBool
	case b.Info()&types.IsInteger != 0:
		return BV(intWidth(b))
	case b.Kind() == types.Float32:
		return SF32
	default:
		return SF64
	}
}

// ---- deep copy across the heap/register boundary ----

// copyAgg returns a copy of aggregate nodes (StructV/ArrayV) owned by owner; all other values are immutable and shared.
func copyAgg(v Value, owner int) Value {
	switch x := v.(type) {
	case *StructV:
		n := &StructV{F: make([]Value, len(x.F)), owner: owner}
		for i, f := range x.F {
			n.F[i] = copyAgg(f, owner)
		}
		return n
	case *ArrayV:
		n := &ArrayV{E: make([]Value, len(x.E)), owner: owner}
		for i, f := range x.E {
			n.E[i] = copyAgg(f, owner)
		}
		return n
	}
	return v
}

// ---- merging ----

type mergeFail struct{ why string }

func (e *Exec) mergeTerm(g, a, b *Term) *Term { return e.ctx.Ite(g, a, b) }

// mergeValue returns ite(g, a, b) or ok=false when the shapes differ.
func (e *Exec) mergeValue(g *Term, a, b Value, owner int) (Value, bool) {
	if a == b {
		return a, true
	}
	if a == nil {
		return b, true
	}
	if b == nil {
		return a, true
	}
	switch x := a.(type) {
	case *Term:
		y, ok := b.(*Term)
		if !ok || x.sort != y.sort {
			return nil, false
		}
		return e.ctx.Ite(g, x, y), true
	case *StructV:
		y, ok := b.(*StructV)
		if !ok || len(x.F) != len(y.F) {
			return nil, false
		}
		n := &StructV{F: make([]Value, len(x.F)), owner: owner}
		for i := range x.F {
			v, ok := e.mergeValue(g, x.F[i], y.F[i], owner)
			if !ok {
				return nil, false
			}
			n.F[i] = v
		}
		return n, true
	case *ArrayV:
		y, ok := b.(*ArrayV)
		if !ok || len(x.E) != len(y.E) {
			return nil, false
		}
		n := &ArrayV{E: make([]Value, len(x.E)), owner: owner}
		for i := range x.E {
			v, ok := e.mergeValue(g, x.E[i], y.E[i], owner)
			if !ok {
				return nil, false
			}
			n.E[i] = v
		}
		return n, true
	case *PtrV, *PtrChoice:
		return e.mergePtrLike(g, a, b)
	case *SliceV:
		y, ok := b.(*SliceV)
		if !ok {
			return nil, false
		}
		if (x.Base == nil) != (y.Base == nil) {
			// nil vs empty-or-not: representable only if the non-nil side is observably
			// different from nil solely through ==nil; keep apart.
			return nil, false
		}
		var base *PtrV
		if x.Base != nil {
			p, ok := e.mergePtr(g, x.Base, y.Base)
			if !ok {
				return nil, false
			}
			base = p.(*PtrV)
		}
		return &SliceV{Base: base, Off: e.ctx.Ite(g, x.Off, y.Off), Len: e.ctx.Ite(g, x.Len, y.Len), Cap: e.ctx.Ite(g, x.Cap, y.Cap)}, true
	case *StrV:
		y, ok := b.(*StrV)
		if !ok {
			return nil, false
		}
		if sameBacking(x.B, y.B) {
			return &StrV{B: x.B, Off: e.ctx.Ite(g, x.Off, y.Off), Len: e.ctx.Ite(g, x.Len, y.Len)}, true
		}
		// different backings: build a common backing (needs concrete offsets)
		if !x.Off.IsConst() || !y.Off.IsConst() {
			return nil, false
		}
		xo, yo := int(x.Off.val), int(y.Off.val)
		xl, yl := len(x.B)-xo, len(y.B)-yo
		if x.Len.IsConst() {
			xl = int(x.Len.val)
		}
		if y.Len.IsConst() {
			yl = int(y.Len.val)
		}
		n := xl
		if yl > n {
			n = yl
		}
		nb := make([]*Term, n)
		z := e.ctx.BVConst(0, 8)
		for i := 0; i < n; i++ {
			ta, tb := z, z
			if i < xl {
				ta = x.B[xo+i]
			}
			if i < yl {
				tb = y.B[yo+i]
			}
			nb[i] = e.ctx.Ite(g, ta, tb)
		}
		return &StrV{B: nb, Off: e.ctx.BVConst(0, 64), Len: e.ctx.Ite(g, x.Len, y.Len)}, true
	case *MapV:
		y, ok := b.(*MapV)
		if !ok || x.Obj != y.Obj {
			return nil, false
		}
		return x, true
	case *IfaceV:
		y, ok := b.(*IfaceV)
		if !ok {
			return nil, false
		}
		if x.T == nil || y.T == nil {
			if x.T == nil && y.T == nil {
				return x, true
			}
			return nil, false
		}
		if !types.Identical(x.T, y.T) {
			return nil, false
		}
		v, ok := e.mergeValue(g, x.V, y.V, owner)
		if !ok {
			return nil, false
		}
		return &IfaceV{T: x.T, V: v}, true
	case *FuncV:
		y, ok := b.(*FuncV)
		if !ok || x.Fn != y.Fn || x.Builtin != y.Builtin || len(x.Bind) != len(y.Bind) {
			return nil, false
		}
		nb := make([]Value, len(x.Bind))
		for i := range x.Bind {
			v, ok := e.mergeValue(g, x.Bind[i], y.Bind[i], owner)
			if !ok {
				return nil, false
			}
			nb[i] = v
		}
		return &FuncV{Fn: x.Fn, Bind: nb}, true
	case *MapData:
		y, ok := b.(*MapData)
		if !ok || len(x.Entries) != len(y.Entries) {
			return nil, false
		}
		n := &MapData{Entries: make([]MapEntry, len(x.Entries)), index: x.index, owner: owner}
		for i := range x.Entries {
			if !sameKey(x.Entries[i].K, y.Entries[i].K) {
				return nil, false
			}
			v, ok := e.mergeValue(g, x.Entries[i].V, y.Entries[i].V, owner)
			if !ok {
				return nil, false
			}
			n.Entries[i] = MapEntry{K: x.Entries[i].K, V: v, Alive: e.ctx.Ite(g, x.Entries[i].Alive, y.Entries[i].Alive)}
		}
		return n, true
	}
	return nil, false
}

func sameKey(a, b Value) bool {
	if a == b {
		return true
	}
	sa, ok1 := a.(*StrV)
	sb, ok2 := b.(*StrV)
	if ok1 && ok2 {
		x, okx := concreteStr(sa)
		y, oky := concreteStr(sb)
		return okx && oky && x == y
	}
	return false
}

func sameBacking(a, b []*Term) bool {
	if len(a) != len(b) {
		return false
	}
	if len(a) == 0 {
		return true
	}
	return &a[0] == &b[0]
}

// strWindow returns concrete (off, len) of a string when both are constant.
func strWindow(s *StrV) (int, int, bool) {
	if s.Off.IsConst() && s.Len.IsConst() {
		return int(s.Off.val), int(s.Len.val), true
	}
	return 0, 0, false
}

func (e *Exec) mergePtr(g *Term, x, y *PtrV) (Value, bool) {
	if isNilPtr(x) && isNilPtr(y) {
		return nilPtr, true
	}
	if x.Obj != y.Obj || len(x.Path) != len(y.Path) {
		return nil, false
	}
	same := true
	for i := range x.Path {
		if x.Path[i].Field != y.Path[i].Field {
			return nil, false
		}
		if x.Path[i].Idx != y.Path[i].Idx {
			same = false
		}
	}
	if same {
		return x, true
	}
	n := &PtrV{Obj: x.Obj, Path: make([]PathElem, len(x.Path))}
	for i := range x.Path {
		n.Path[i] = x.Path[i]
		if x.Path[i].Field < 0 {
			n.Path[i].Idx = e.ctx.Ite(g, x.Path[i].Idx, y.Path[i].Idx)
		}
	}
	return n, true
}

type unsupportedErr struct{ msg string }

func unsupported(msg string) unsupportedErr { return unsupportedErr{msg} }
func (u unsupportedErr) Error() string      { return "unsupported: " + u.msg }

func describe(v Value) string {
	switch x := v.(type) {
	case *Term:
		return x.String()
	case *StructV:
		return fmt.Sprintf("struct%v", x.F)
	case *ArrayV:
		return fmt.Sprintf("array[%d]", len(x.E))
	case *PtrV:
		if isNilPtr(x) {
			return "nil"
		}
		return fmt.Sprintf("&obj%d%v", x.Obj.id, x.Path)
	case *SliceV:
		return fmt.Sprintf("slice(len=%v)", x.Len)
	case *StrV:
		if s, ok := concreteStr(x); ok {
			return fmt.Sprintf("%q", s)
		}
		return "string(sym)"
	case *IfaceV:
		if x.T == nil {
			return "iface(nil)"
		}
		return "iface(" + x.T.String() + ")"
	}
	return fmt.Sprintf("%T", v)
}

#!/bin/sh
# builds the engine and the native helper tools from the sources in /verif (offline)
export GOFLAGS=-mod=mod GOPROXY=off GOSUMDB=off GOTOOLCHAIN=local
set -e
mkdir -p /verif/bin
(cd /verif/engine && go build -o /verif/bin/gosym .)
(cd /verif/tools/exclgen && go build -o /verif/bin/exclgen .)
(cd /verif/tools/c09gen && go build -o /verif/bin/c09gen .)
(cd /verif/tools/fontgen && go build -o /verif/bin/fontgen .)
(cd /verif/tools/repgen && go build -o /dev/null .)
echo "setup ok"
